"""Shared plumbing: evidence files, known findings, subprocess helpers."""
import json, os, subprocess, sys, time, hashlib, resource

VERIF = os.path.dirname(os.path.dirname(os.path.abspath(__file__)))
REPO = os.environ.get("VERIF_REPO", "/repo")
# VERIF_INSTANCE (development aid for testing seeded changes in parallel on copies of the repository; never set
# by a registered command): private cache, evidence and replay directories so that concurrent runs do not collide
INSTANCE = os.environ.get("VERIF_INSTANCE")
CACHE = os.path.join(VERIF, ".cache") if not INSTANCE else os.path.join(VERIF, ".cache", "inst-" + INSTANCE)
EVIDENCE = os.path.join(VERIF, "evidence") if not INSTANCE else os.path.join(CACHE, "evidence")
REPLAYS = os.path.join(VERIF, "replays") if not INSTANCE else os.path.join(CACHE, "replays")
NCPU = os.cpu_count() or 4
PROCESS_T0 = time.time()
# every-change tier: lemmas still waiting when this much wall-clock time has passed are not started and are listed as
# skipped in the evidence (a safety net for slow machines; the quick subsets are sized to finish well before it)
QUICK_TIME_BOX_S = float(os.environ.get("VERIF_QUICK_BOX", "660"))

OFFLINE_ENV = {"CARGO_NET_OFFLINE": "true"}


def env_with(extra=None):
    e = dict(os.environ)
    e.update(OFFLINE_ENV)
    if extra:
        e.update(extra)
    return e


def seed():
    try:
        return int(os.environ.get("VERIF_SEED", "0"))
    except ValueError:
        return 0


def repo_src_hash():
    h = hashlib.sha256()
    for root, _, files in sorted(os.walk(os.path.join(REPO, "src"))):
        for f in sorted(files):
            p = os.path.join(root, f)
            h.update(p.encode())
            h.update(open(p, "rb").read())
    for f in ("Cargo.toml", "Cargo.lock"):
        p = os.path.join(REPO, f)
        if os.path.exists(p):
            h.update(open(p, "rb").read())
    return h.hexdigest()[:16]


def write_evidence(pid, tier, level, coverage, assumptions, wall_s, violations=0, extra=None):
    os.makedirs(EVIDENCE, exist_ok=True)
    ev = {
        "property_id": pid,
        "tier": tier,
        "seed": seed(),
        "level": level,
        "coverage": coverage,
        "assumptions": assumptions,
        "wall_s": round(wall_s, 2),
        "violations": violations,
    }
    if extra:
        ev.update(extra)
    p = os.path.join(EVIDENCE, pid + ".json")
    tmp = p + ".tmp"
    with open(tmp, "w") as f:
        json.dump(ev, f, indent=1, sort_keys=False)
    os.replace(tmp, p)
    return p


def load_known_findings():
    p = os.path.join(VERIF, "known_findings.json")
    if not os.path.exists(p):
        return {"findings": [], "fixed": []}
    return json.load(open(p))


def known_for(pid):
    kf = load_known_findings()
    return [f for f in kf.get("findings", []) if f.get("property") == pid]


def limit_mem(gb):
    def f():
        b = int(gb * (1 << 30))
        resource.setrlimit(resource.RLIMIT_AS, (b, b))
    return f


def run(cmd, cwd=None, timeout=None, env=None, mem_gb=None, log=None):
    """Run a command, return (rc, stdout+stderr). rc=-9 on timeout."""
    t0 = time.time()
    try:
        p = subprocess.run(
            cmd, cwd=cwd, env=env_with(env), timeout=timeout,
            stdout=subprocess.PIPE, stderr=subprocess.STDOUT,
            preexec_fn=limit_mem(mem_gb) if mem_gb else None,
        )
        out = p.stdout.decode("utf-8", "replace")
        rc = p.returncode
    except subprocess.TimeoutExpired as e:
        out = (e.stdout or b"").decode("utf-8", "replace") + "\n[TIMEOUT after %ss]" % timeout
        rc = -9
    if log:
        with open(log, "w") as f:
            f.write("$ %s\n[rc=%s, %.1fs]\n" % (" ".join(cmd), rc, time.time() - t0))
            f.write(out)
    return rc, out


def say(*a):
    print(*a, flush=True)
