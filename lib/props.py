"""Property registry: which engine parts make up each property's check."""
import json, os, sys, time
from lib.common import *
from lib.parts import conclude


def e1_part(pid, tier, H, modules, assumptions, bounds, functions, only=None, **kw):
    from e1.driver import e1_run
    if only:
        H = [h for h in H if h.family in only]
    return e1_run(pid, tier, H, modules, assumptions, bounds, functions, **kw)


def parts_for(pid, tier, only):
    P = []
    if pid == "C04":
        from e1 import fam_c04 as f
        P.append(e1_part(pid, tier, f.build(tier), f.MODULES, f.ASSUMPTIONS, f.BOUNDS, f.FUNCTIONS, only))
    elif pid == "C05":
        from e1 import fam_c05 as f
        P.append(e1_part(pid, tier, f.build(tier), f.MODULES, f.ASSUMPTIONS, f.BOUNDS, f.FUNCTIONS, only))
    elif pid == "C07":
        from e1 import fam_misc as f
        from e2.driver import e2_run
        from e2.lemmas import c18

        class c07mod:
            run = staticmethod(c18.run_c07)
        P.append(e2_run(pid, tier, [c07mod], only=only, flavours=("on",),
                        assumptions=["word level: pack words push exactly from_int / from_fN of the popped value with the word's width and byte order; emit with interception on sets output' = output.append(emitted) and output-length' = output-length + len",
                                     ">bitstr's flattening loop over vectors is not covered at word level (its element operation, append, is covered at bit level)"],
                        bounds="one step per word; Bitstr operations uninterpreted at this level"))
        P.append(e1_part(pid, tier, f.c07_records(tier), ["ops_c07"],
                         ["record = optional raw prefix of 0..7 bits + 3 fields; widths from {1,3,4,7,8,9,12,16,24,32,63,64,65,127,128}; byte order, signedness and the emit split literal per instance; field values symbolic i128 / symbolic float bits",
                          "concatenation is the exact call sequence of bitstr_concat / emit: start from Bitstr::new() and append each element"],
                         "<=3 fields (+prefix), unwind 140", ["xeh::bitstr::Bitstr::{new, from_int, from_f32, from_f64, append, read, to_int, to_uint, to_f32, to_f64}"], only, harness_timeout=900))
    elif pid == "C18":
        from e2.driver import e2_run
        from e2.lemmas import c18
        P.append(e2_run(pid, tier, [c18], only=only, flavours=("on",) if tier == "quick" else ("on", "off"),
                        assumptions=["wrapper level only: the codec crates (base32, base64, z85) are uninterpreted functions text = enc(bytes), dec(text) = Some(bytes)|None; their own round trip is NOT decided (Kani: 900 s timeout on a 1-byte instance; external MIR not in the dump)",
                                     "encode words: a bit-string argument is accepted exactly when its length is a multiple of 8 (any alignment), strings are accepted, other non-vector types refused like >bitstr; vector arguments (flattening loop) excluded",
                                     "decode words on a string: never an error, exactly one result cell, the decoded bytes when the codec accepts (also empty), nil when it rejects"],
                        bounds="no bound on lengths (codec results are symbolic vectors); vector arguments excluded"))
    elif pid == "C01":
        from e1 import fam_misc as f
        from e2.driver import e2_run
        from e2.lemmas import c01
        P.append(e1_part(pid, tier, f.c01_l1(), ["bitmodel", "ops_c04", "ops_c05", "ops_misc"],
                         ["L1 jump codec: origin and destination fully symbolic below 2^31 (i32 offsets)"], "code addresses < 2^31", ["opcodes::RelativeJump::{from_to, calculate}"], only))
        P.append(e2_run(pid, tier, [c01], only=only, flavours=("on",) if tier == "quick" else ("on", "off"),
                        assumptions=["L3: one step of the real fetch_and_run per control opcode from an arbitrary state, against the structural small-step semantics (Nop Jump JumpIf JumpIfNot CaseOf Call Ret Do Loop Break InitLocal Store LoadNil LoadI64)",
                                     "L2: then / else / loop / repeat / break of the real compiler on an arbitrary compile state whose pending flows are the ones the word expects (<= 2 pending breaks); placeholders are the opcodes the opening words emit",
                                     "the induction over nested constructs (L1+L2+L3 => every program of the grammar), literals/lexing, case value conventions, recursion depth and output are outside the machine-checked part"],
                        bounds="code addresses < 2^31; <= 2 pending breaks per closing word; no bound on stack depths"))
    elif pid == "C12":
        from e1 import fam_misc as f
        P.append(e1_part(pid, tier, f.c12_index(), ["bitmodel", "ops_c04", "ops_c05", "ops_misc"],
                         ["index arithmetic of nth / slice: every isize index, lengths <= 2^40, against the sequence model (negative = from the end, clamping, None when out of range), never a panic"],
                         "len <= 2^40", ["state::relative_index", "state::slicing_index"], only))
        from e2.driver import e2_run
        from e2.lemmas import c12
        P.append(e2_run(pid, tier, [c12], only=only, flavours=("on",),
                        assumptions=["order laws of map keys: real Cell::cmp and Cell::eq on two arbitrary untagged cells (non-NaN reals): cmp == Equal iff ==, antisymmetry; strings ordered by an uninterpreted total order, collections compared by uninterpreted equality",
                                     "rpds' red-black tree and std sort are trusted given a lawful order; collection words (nth get push ...) appear in C13/C08/C02 lemmas"],
                        bounds="two cells, any variants"))
    elif pid == "C08":
        from e1 import fam_misc as f
        from e2.driver import e2_run
        from e2.lemmas import c08
        P.append(e1_part(pid, tier, f.c08_kernels() + f.c12_index(), ["bitmodel", "ops_c04", "ops_c05", "ops_misc"],
                         ["bit kernels and Bitstr range arithmetic with full-width symbolic usize arguments on fixed small values; the index helpers of nth / slice for every isize index"], "values <= 3 bytes; len <= 2^40",
                         ["bitstr::{cut_bits, bit_mask, upper_bound_index}", "Bitstr::{read, peek, split_at, seek, substr, to_int, to_uint}", "fmt_flags::FmtFlags", "state::{relative_index, slicing_index}"], only))
        c08.TIER = tier
        P.append(e2_run(pid, tier, [c08], only=only, flavours=("on",) if tier == "quick" else ("on", "off"),
                        assumptions=["per-word panic freedom: every non-immediate native word the executor can run, from an arbitrary state whose top three cells are arbitrary (any variant, tagged or not, full-width payloads), in both overflow-check flavours",
                                     "the evidence lists the words covered and the words not covered with the reason; the claim is exactly the covered list (the property's quantifier over all source texts and call sequences is not decidable here)",
                                     "Bitstr internals are summarised (E1 covers them); formatting produces opaque strings"],
                        bounds="3 symbolic operand cells; path budget per word (exceeded => not covered)"))
    elif pid == "E1MISC":
        from e1 import fam_misc as f
        P.append(e1_part(pid, tier, f.c01_l1() + f.c12_index() + f.c08_kernels(), ["bitmodel", "ops_c04", "ops_c05", "ops_misc"], [], "", [], only))
    elif pid == "C03":
        from e1 import fam_misc as f
        P.append(e1_part(pid, tier, f.c03_iso(tier), ["bitmodel", "ops_c03"],
                         ["two values alias one <=3-byte buffer (clone / parent / overlapping or adjacent sibling), owned or borrowed 'static, optional third alias; contents symbolic; geometry literal"],
                         "buffers <= 3 bytes, tails <= 2 bytes, unwind 50", ["xeh::bitstr::Bitstr::{detach, append, insert, invert, read, data_mut}"], only))
        from e2.driver import e2_run
        from e2.lemmas import c03
        P.append(e2_run(pid, tier, [c03], only=only, flavours=("on",),
                        assumptions=["the real State::clone on an arbitrary state: the copy equals the original in every one of its components (reverse log included), the original is unchanged",
                                     "independence afterwards: containers are Vec / rpds / Rc of immutable data (by their types); in-place mutated bit-string buffers are the E1 part"],
                        bounds="none (one call, symbolic state)"))
    elif pid == "C09":
        from e2.driver import e2_run
        from e2.lemmas import c09
        P.append(e2_run(pid, tier, [c09], only=only,
                        assumptions=["operands are untagged cells of any variant with full-width symbolic payloads (i128 / f64); tags are C13's subject",
                                     "pre-state: any interpreter state with the operands on top of a data stack of any depth (symbolic hidden part, symbolic context base), recording on or off, any limits",
                                     "f64 `%` is modelled as C fmod derived from z3's IEEE remainder; f64::round as round-half-away; f64::min/max as IEEE minNum/maxNum",
                                     "shift counts outside 0..127 and comparisons on unordered (NaN) operands are unconstrained, as the property says"],
                        bounds="no bound on values or stack depth; words are loop-free"))
    elif pid == "C02":
        from e2.driver import e2_run
        from e2.lemmas import c02
        P.append(e2_run(pid, tier, [c02], only=only, flavours=("on",) if tier == "quick" else ("on", "off"),
                        assumptions=["one-step induction: forward step (real fetch_and_run, recording on) from an arbitrary state, then the real rnext; pre-state restored exactly (ip/context, data stack, frames with locals, loops, vector-builder marks, heap, log)",
                                     "pre-state invariant: the newest older log entry (if any) is a SetIp (every completed instruction logs SetIp last; this is itself an obligation of each arm)",
                                     "native words run as NativeCall instructions; words outside the listed set, Resolve back-patching, dictionary changes and I/O are outside the claim",
                                     "composition over histories of any length (induction) and replay determinism (steps are functions of the state) are paper arguments"],
                        bounds="no bound on stack depths / log length (symbolic prefixes); rnext's pop loop unrolled up to 8 entries per instruction"))
    elif pid == "C10":
        from e2.driver import e2_run
        from e2.lemmas import c10
        P.append(e2_run(pid, tier, [c10], only=only, flavours=("on",) if tier == "quick" else ("on", "off"),
                        assumptions=["error-path frame lemmas on the real build_from_source: the token-level builder build0 is replaced by failing builds (one failing at once; one leaving an open `if`, an unclosed meta context, an included source, emitted code); on Err nesting, context, pending inputs, pending flows, auxiliary stacks must be as at entry, earlier data stays, leftover code is removed or unreachable",
                                     "REPL path: after a failing step, opening and closing a Compile context must not leave ip on the failed instruction",
                                     "that these fields are all a later source can observe, and the composition over histories, are paper arguments"],
                        bounds="none (frame lemmas over symbolic states)"))
    elif pid == "C11":
        from e2.driver import e2_run
        from e2.lemmas import c11
        P.append(e2_run(pid, tier, [c11], only=only, flavours=("on",) if tier == "quick" else ("on", "off"),
                        assumptions=["sealing: every stack accessor on a state with an empty visible part returns nothing and leaves every stack unchanged, for any hidden content; variables are refused in meta mode",
                                     "closing a meta block (real context_close, nothing left to run): code/debug map truncated, non-constant new dictionary entries purged (<= 3 new entries), results (<= 2) re-emitted as literals last-first exactly when the parent is not a meta context or is building a function, parent context restored",
                                     "closing a Compile context calls run() never",
                                     "equivalence of a program with a meta block to the program with the literal (whole programs), user-defined immediate words: paper / excluded"],
                        bounds="<= 3 entries added by the block, <= 2 results; hidden parts of all stacks symbolic"))
    elif pid == "C16":
        from e2.driver import e2_run
        from e2.lemmas import c16
        P.append(e2_run(pid, tier, [c16], only=only, flavours=("on",) if tier == "quick" else ("on", "off"),
                        assumptions=["one call of the real Lex::next (with peek_char / take_char, the real BitvecBuilder and error closures) from any char boundary of a text of symbolic Unicode scalar values: no panic, the token is exactly buf[pos0..pos1] (tiling by induction on calls), integers denote the value of the documented spelling or are rejected, valid spellings are accepted, reals are f64::from_str of the spelling without `_`, escapes and bit-string digits decode as documented",
                                     "long spellings (i128 limits): hex / binary with shift arithmetic, decimal <= 20 digits with arithmetic, 39-digit decimal with from_str_radix uninterpreted (only that the lexer hands it sign + digits)",
                                     "printer: Debug of an Int is exactly one Display of the i128; Debug of a bit-string (iter8 chunks as decided by E1) reads back, by the literal rules, as the same bits",
                                     "std models (trusted): str/String/Chars/char methods, ArcStr/Substr slicing with char-boundary panics, from_str_radix contract, f64::from_str uninterpreted, Formatter as an output recorder",
                                     "outside: texts with more than 6 characters left per token (except the digit-only long spellings), Display of i128 / f64 (std), vectors and maps re-read through the interpreter's [ ] { } words (paper)"],
                        bounds="tokens of <= 4 (quick) / <= 6 (thorough) characters after an arbitrary char-boundary offset; digit strings up to 130 characters; bit-strings of <= 3 iter8 chunks"))
    elif pid == "C17":
        from e2.driver import e2_run
        from e2.lemmas import c17
        P.append(e2_run(pid, tier, [c17], only=only, flavours=("on",) if tier == "quick" else ("on", "off"),
                        assumptions=["a failing VM step leaves ip on the failing instruction and code/debug map untouched (every opcode arm); code_emit keeps the debug map parallel to the code and records the current token; build0's handler keeps an already reported run-time location",
                                     "the real token_location on a text of K symbolic characters (LF, CR, tabs, multi-byte) for every token start: line = line feeds before it, column = characters since the line start, quoted line = the maximal break-free piece containing it (std str / ArcStr modelled as in C16)",
                                     "NOT decided here: which token is current at each emit across included files and called words (whole-program); empty sources (no token can come from one)"],
                        bounds="one-step lemmas; token_location: texts of <= 5 (quick) / <= 6 (thorough) characters"))
    elif pid == "C15":
        from e2.driver import e2_run
        from e2.lemmas import c15
        P.append(e2_run(pid, tier, [c15], only=only, flavours=("on",) if tier == "quick" else ("on", "off"),
                        assumptions=["relational one-step lemmas on the real fetch_and_run / next / run: the same arbitrary pre-state driven two ways must give the same result and the same machine state (data stack, frames, loops, marks, heap, context, meter)",
                                     "recording off vs on for every opcode arm and the listed native words; next vs one VM step; run vs next on a last instruction",
                                     "eval = compile + run from idle and run = iterated next over whole programs are paper compositions; last_error / location text excluded"],
                        bounds="none (one-step lemmas over symbolic states)"))
    elif pid == "C14":
        from e2.driver import e2_run
        from e2.lemmas import c14
        P.append(e2_run(pid, tier, [c14], only=only, flavours=("on",) if tier == "quick" else ("on", "off"),
                        assumptions=["limits are symbolic Option<usize>; lemmas: push_data / alloc_heap / one fetch_and_run step from an arbitrary state; MIR scan: no other code grows the data stack or the heap",
                                     "an unknown native word reached through NativeCall is assumed not to touch the instruction meter or the limits",
                                     "memory held inside cells (a one-item stack holding a huge vector) is outside the property"],
                        bounds="none (one-step lemmas over symbolic states)"))
    elif pid == "C13":
        from e2.driver import e2_run
        from e2.lemmas import c13
        P.append(e2_run(pid, tier, [c13], only=only, flavours=("on",) if tier == "quick" else ("on", "off"),
                        assumptions=["relational: each listed word is run twice from the same symbolic pre-state, once with a plain argument v and once with WithTag{tags: any map, value: v}; outcomes must agree for all inputs",
                                     "tag nesting depth 1 (invariant, itself checked on Cell::with_tags: a wrapper never stores a wrapper)",
                                     "persistent maps are modelled as an opaque base plus written entries; lookups in the base are a function of (base, key value)",
                                     "words covered: the arithmetic/logic words, stack words, length nth get push insert remove equal? nil? assert, and the cursor words with a tagged size argument; Cell::cmp / == see through tags (sort, map keys); printing words and the tag words are excluded as the property says",
                                     "NOT covered: slice, reverse, sort, concat, join, collect-style words that iterate a persistent vector through iterator adaptors or build text (mirsym has no model of those chains / of text building)"],
                        bounds="tag nesting 1; vectors indexed symbolically (no iteration), loop-free words"))
    elif pid == "C06":
        from e2.driver import e2_run
        from e2.lemmas import c06
        P.append(e2_run(pid, tier, [c06], only=only, flavours=("on",) if tier == "quick" else ("on", "off"),
                        assumptions=["pre-state: any interpreter state (Eval/Compile mode) whose `input` variable holds a bit-string with start <= end <= 2^60, `offset` an integer inside it, `stash` a vector; every other part symbolic",
                                     "which number a field decodes to is C05's subject: Bitstr::to_uint/to_int/to_f32/to_f64 and eq_with are uninterpreted functions of (range, buffer) here",
                                     "nulbytestr / cstr / find / magic's mismatch scan loop over the content: not covered by this lemma set (stated in DESIGN.md)"],
                        bounds="no bound on input length, offset or the size argument (full 128-bit symbolic); words are loop-free after the decoder summaries"))
    else:
        return None
    return P


def run(pid, tier, only=None):
    t0 = time.time()
    P = parts_for(pid, tier, only)
    if P is None:
        say("unknown property " + pid)
        return 2
    return conclude(pid, tier, t0, P)


def replay(pid, path):
    rec = json.load(open(path))
    if rec.get("engine") == "e1":
        from e1.driver import replay_file
        return replay_file(path)
    if rec.get("engine") == "e2":
        from e2.driver import replay_file
        return replay_file(path)
    say("unknown replay record")
    return 2


def setup():
    """One-time warm-up after a fresh restore: MIR dumps (both flavours) and the native replayer."""
    rc = 0
    try:
        import z3  # noqa
    except Exception as e:
        say("z3 python bindings missing: %s" % e)
        return 1
    from e2.session import load
    for fl in ("on", "off"):
        try:
            load(fl)
            say("MIR dump (overflow-checks=%s) ready" % fl)
        except Exception as e:
            say("MIR dump failed: %s" % e)
            rc = 1
    from e2.driver import build_replayer
    ok, msg = build_replayer()
    say("replayer: %s" % ("ok" if ok else msg))
    return rc if ok else 1
