"""Combine the parts of one property's check (E1 Kani runs, E2 lemma sets, MIR scans) into one
verdict, one evidence file and the VIOLATION / KNOWN-FINDING lines."""
import time
from lib.common import *


def conclude(pid, tier, t0, parts, level="model_checking", extra=None):
    violations = [v for p in parts for v in p["violations"]]
    knowns = [k for p in parts for k in p["knowns"]]
    problems = [(p["name"] + ":" + str(a), b) for p in parts for (a, b) in p["problems"]]
    states = sum(p["states"] for p in parts)
    trans = sum(p["transitions"] for p in parts)
    traces = sum(p["traces"] for p in parts)
    samples = [s for p in parts for s in p["samples"]][:40]
    cov = {
        "states": states, "transitions": trans, "traces_validated_against_impl": traces,
        "samples": samples or ["none"],
        "exhaustive": False,
        "parts": {p["name"]: p["detail"] for p in parts},
        "functions_encoded": [f for p in parts for f in p["functions"]],
        "bounds": [p["name"] + ": " + p["bounds"] for p in parts],
        "solver_time_s": round(sum(p["solver_s"] for p in parts), 2),
        "repo_src_hash": repo_src_hash(),
        "known_findings_reported": [k[0].get("id") for k in knowns],
        "inconclusive": [list(x) for x in problems],
        "violations_detail": [{k: v for k, v in r.items() if k in ("harness", "lemma", "instance", "check", "concrete_values", "native_replay", "scenario", "observed")} for r in violations],
        "meaning_of_counts": "states = symbolic instances / paths explored (each covers all values of its symbolic inputs); transitions = solver-discharged obligations (CBMC properties / SMT queries); traces_validated_against_impl = concrete runs of the real build (native harness runs, translator self-test vectors, replayed scenarios)",
    }
    if extra:
        cov.update(extra)
    if states < 1 or trans < 1:
        cov["evaluations"] = max(1, states + trans)
        cov["distinct_nontrivial"] = max(2, states)
        for k in ("states", "transitions", "traces_validated_against_impl"):
            cov.pop(k)
    assumptions = [a for p in parts for a in p["assumptions"]]
    write_evidence(pid, tier, level, cov, assumptions, time.time() - t0, violations=len(violations))
    seen_kf = {}
    for kf, rec in knowns:
        seen_kf.setdefault(kf.get("id") or kf.get("what"), [kf, 0, rec])[1] += 1
    for key, (kf, n, rec) in seen_kf.items():
        say("KNOWN-FINDING: property=%s %s [%s; %d matching obligation(s)/instance(s)]" % (pid, kf.get("what"), rec.get("instance") or rec.get("lemma"), n))
    for r in violations:
        say("VIOLATION property=%s replay=%s" % (pid, r["replay"]))
        for k in ("instance", "lemma", "check", "concrete_values", "scenario", "native_replay", "observed"):
            if r.get(k) is not None:
                say("  %s: %s" % (k, r[k]))
    if violations:
        return 1
    if problems:
        for a, b in problems:
            say("[%s] INCONCLUSIVE %s: %s" % (pid, a, str(b)[:600]))
        return 2
    say("[%s] OK: %d symbolic instances/paths, %d obligations discharged, %d concrete traces, solver %.1fs, wall %.0fs" % (
        pid, states, trans, traces, sum(p["solver_s"] for p in parts), time.time() - t0))
    return 0
