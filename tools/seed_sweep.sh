#!/bin/bash
# the E1 families rotate their covering grid with VERIF_SEED: make sure no rotation hits an intractable instance
cd /verif
out=.cache/seed_sweep.txt
for s in 2 3 4 5 6 7; do
  for p in C04 C05 C03 C07; do
    t0=$(date +%s)
    VERIF_SEED=$s VERIF_INSTANCE=seed$s-$p timeout 3000 ./check $p --tier quick > .cache/seed_$s_$p.log 2>&1
    rc=$?
    echo "seed=$s $p exit=$rc wall=$(( $(date +%s) - t0 ))s $(grep -c INCONCLUSIVE .cache/seed_$s_$p.log) inconclusive" >> $out
    rm -rf .cache/inst-seed$s-$p
  done
done
echo DONE >> $out
