#!/bin/bash
# run every thorough check in sequence on the current tree; summary in .cache/all_thorough.txt
cd /verif
out=.cache/all_thorough.txt
: > $out
for p in ${@:-C10 C14 C18 C12 C03 C17 C11 C01 C16 C09 C15 C07 C06 C02 C13 C05 C08 C04}; do
  t0=$(date +%s)
  timeout 14400 ./check $p --tier thorough > .cache/thor_$p.log 2>&1
  rc=$?
  t1=$(date +%s)
  echo "$p exit=$rc wall=$((t1-t0))s $(grep -c '^VIOLATION' .cache/thor_$p.log) violations $(grep -c '^KNOWN-FINDING' .cache/thor_$p.log) known" >> $out
done
echo "ALL DONE" >> $out
