#!/bin/bash
# usage: tools/mutant.sh <mutant-dir containing patch.diff> <PROPERTY> [quick|thorough] [extra check args]
# applies the patch to /repo, runs the check, restores /repo. Prints the check's exit code.
set -u
d="$(realpath $1)"; prop="$2"; tier="${3:-quick}"; shift; shift; shift || true
cd /verif
if ! git -C /repo diff --quiet; then echo "/repo has uncommitted changes; refusing"; exit 9; fi
git -C /repo apply "$d/patch.diff" || { echo "patch does not apply"; exit 9; }
trap 'git -C /repo checkout -- . ' EXIT
out=".cache/mutant-$(basename $d)-$prop.log"
VERIF_MUTANT=1 ./check "$prop" --tier "$tier" "$@" > "$out" 2>&1
rc=$?
echo "== $(basename $d) vs $prop: exit $rc"
grep -E "^VIOLATION|^KNOWN-FINDING|INCONCLUSIVE|OK:" "$out" | cut -c1-220 | head -8
exit 0
