#!/usr/bin/env python3
"""Build /verif/seeded/<name>/ from the sub-agents' deliveries (seeded_incoming/), my own confirmation runs
(.cache/confirm.jsonl, tools/confirm_mutants.py) and the runs of the checks on them (.cache/mutants/results.txt,
tools/mutants.py). Only confirmed changes are accepted: demo passes on the unchanged tree, the repository's 144
tests still pass with the change, the demo fails with it. Writes seeded/INDEX.md (which check caught what)."""
import glob, json, os, re, shutil

V = "/verif"

# why the ones that were not caught were not caught (analysed by hand; see DESIGN.md 11.5)
NOTES = {
    "C03-append-stale-tail-bits": "a value-level defect of append on a uniquely owned buffer: outside C03's aliasing shapes, decided (and caught) by C04's check",
    "C07-emit-byte-chunk-after-partial": "the rewrite goes through Vec<u8> growth of an opaque buffer (to_bytes_with_padding + extend): mirsym refuses, the emit lemma is undecided",
    "C08-loop-counter-indexes-past-loop-stack": "the rewrite indexes a sub-slice of a vector with a symbolic hidden part: mirsym refuses; the committed coverage baseline turns the refusal into an inconclusive run",
    "C12-collect-base-in-meta": "the wrong pointer reaches below the explicit cells into the symbolic hidden part: the slice is refused (C12 collect lemma undecided); C11's sealing lemmas do not cover collect",
    "C12-str-slice-byte-len": "string slicing by characters: strings are opaque in the word lemmas (the text model is used for the lexer and token locations only)",
    "C13-join-raw-match": "the tagged string element now goes through format_cell (format! machinery, opaque in E2): the join lemma on the text model is refused on that path, so the run is inconclusive rather than green",
    "C15-store-skipped-when-equal-while-recording": "found by the solver (recording on/off leaves different heaps), but the model it returns stores an equal untagged value, which is not observable natively: not reproduced, exit 2",
    "C18-zero85-encode-zero-padding": "the rewrite pads through Cow::into_owned / Vec::resize on an opaque byte buffer: refused, encode lemma undecided",
    "C07-concat-unaligned-raw-field": "a bit-level defect of append (whole-byte tail at an odd bit offset onto an aligned receiver): see the C04 run",
}


def main():
    conf = {}
    for ln in open(os.path.join(V, ".cache", "confirm.jsonl")):
        r = json.loads(ln)
        conf[r["name"]] = r                      # latest wins
    runs = {}
    for ln in open(os.path.join(V, ".cache", "mutants", "results.txt")):
        m = re.match(r"^(\S+) vs (C\d\d): exit (\d+), (\d+) violations, (\d+)s ?(.*)$", ln.strip())
        if m:
            runs.setdefault(m.group(1), {})[m.group(2)] = {"exit": int(m.group(3)), "violations": int(m.group(4)), "wall_s": int(m.group(5)), "first": m.group(6)}
    rows = []
    out = os.path.join(V, "seeded")
    os.makedirs(out, exist_ok=True)
    for d in sorted(glob.glob(os.path.join(V, "seeded_incoming", "*", "*", ""))):
        name = os.path.basename(d.rstrip("/"))
        c = conf.get(name)
        meta0 = json.load(open(os.path.join(d, "meta.json")))
        if meta0.get("kind") == "reverted-fix":
            # a genuine defect of the original tree, re-introduced by reverting its repair: the demonstration is the
            # native replay the check itself printed (scenario / concrete values and what the real build did)
            rr = runs.get(name, {})
            dst = os.path.join(out, name)
            os.makedirs(dst, exist_ok=True)
            shutil.copy(os.path.join(d, "patch.diff"), dst)
            demo = []
            for p_ in rr:
                lg = os.path.join(V, ".cache", "mutants", "%s-%s.log" % (name, p_))
                if os.path.exists(lg):
                    keep = False
                    for ln in open(lg):
                        if ln.startswith("VIOLATION "):
                            keep = True
                        if keep and len(demo) < 60:
                            demo.append(ln.rstrip())
            open(os.path.join(dst, "demonstration.txt"), "w").write("\n".join(demo) + "\n")
            meta0["checks_run_on_it"] = {p_: {"cmd": "./check %s --tier quick (private copy with the patch, tools/mutants.py)" % p_, "exit": r["exit"], "violation_lines": r["violations"],
                                              "wall_s": r["wall_s"], "first_reported": r["first"]} for p_, r in rr.items()}
            meta0["what_i_ran_to_confirm"] = "git apply --check -R of the fix commit on HEAD; the original tree (before the fix) passed the 144 tests; the check's own native replay (demonstration.txt) shows the failing input on the real build"
            meta0["apply"] = "git -C /repo apply /verif/seeded/%s/patch.diff ; undo: git -C /repo checkout -- ." % name
            json.dump(meta0, open(os.path.join(dst, "meta.json"), "w"), indent=1)
            caught = [p_ for p_, r in rr.items() if r["exit"] == 1]
            status = ("caught by " + ", ".join("%s (%s)" % (p_, rr[p_]["first"] or "violation") for p_ in caught)) if caught else \
                ("inconclusive (exit 2) in " + ", ".join(p_ for p_, r in rr.items() if r["exit"] == 2) if any(r["exit"] == 2 for r in rr.values()) else
                 ("missed by " + ", ".join(rr) if rr else "not run"))
            rows.append((meta0.get("property"), name, status, ""))
            continue
        if not c:
            continue
        ok = c.get("demo_on_clean") == "pass" and c.get("patch") == "applies" and str(c.get("suite_on_mutant", "")).startswith("144 passed, 0 failed") \
            and str(c.get("demo_on_mutant", "")).startswith("fails")
        meta = json.load(open(os.path.join(d, "meta.json")))
        prop = meta.get("property")
        if not ok:
            rows.append((prop, name, "NOT ACCEPTED (confirmation failed: %s)" % {k: c.get(k) for k in ("demo_on_clean", "patch", "suite_on_mutant", "demo_on_mutant")}, ""))
            shutil.rmtree(os.path.join(out, name), ignore_errors=True)
            continue
        dst = os.path.join(out, name)
        os.makedirs(dst, exist_ok=True)
        shutil.copy(os.path.join(d, "patch.diff"), dst)
        shutil.copy(os.path.join(d, "demo.rs"), os.path.join(dst, "demo.rs"))
        rr = runs.get(name, {})
        meta_out = {
            "property": prop,
            "what_was_changed": meta.get("summary"),
            "needs_to_manifest": meta.get("needs_to_manifest"),
            "made_by": "fresh sub-agent in a scratch worktree, given only the property text",
            "sub_agent_ran": meta.get("ran"),
            "base_commit_of_patch": c.get("head"),
            "what_i_ran_to_confirm": {
                "tool": "tools/confirm_mutants.py (private copy of /repo HEAD under /tmp, removed afterwards)",
                "demo_on_unchanged_tree": c.get("demo_on_clean"),
                "repository_test_suite_with_the_change": c.get("suite_on_mutant"),
                "demo_with_the_change": c.get("demo_on_mutant"),
            },
            "checks_run_on_it": {p: {"cmd": "./check %s --tier quick (on a private copy with the patch, tools/mutants.py)" % p, "exit": r["exit"],
                                     "violation_lines": r["violations"], "wall_s": r["wall_s"], "first_reported": r["first"]} for p, r in rr.items()},
            "apply": "git -C /repo apply /verif/seeded/%s/patch.diff ; undo: git -C /repo checkout -- ." % name,
        }
        json.dump(meta_out, open(os.path.join(dst, "meta.json"), "w"), indent=1)
        caught = [p for p, r in rr.items() if r["exit"] == 1]
        incon = [p for p, r in rr.items() if r["exit"] == 2]
        missed = [p for p, r in rr.items() if r["exit"] == 0]
        status = "caught by " + ", ".join("%s (%s)" % (p, rr[p]["first"] or "violation") for p in caught) if caught else \
            ("inconclusive (exit 2) in " + ", ".join(incon) if incon else ("missed by " + ", ".join(missed) if missed else "not run"))
        rows.append((prop, name, status, meta.get("needs_to_manifest", "")))
    with open(os.path.join(out, "INDEX.md"), "w") as f:
        f.write("# Seeded breaking changes and what the checks said\n\nEach directory: `patch.diff` (apply with `git -C /repo apply`), `demo.rs` (a test that passes on the unchanged tree and fails with the change; the 144 repository tests pass either way), `meta.json`.\n\n")
        f.write("| property | change | result of the property's quick check | note |\n|---|---|---|---|\n")
        for prop, name, status, _ in sorted(rows):
            f.write("| %s | %s | %s | %s |\n" % (prop, name, status.replace("|", "/"), NOTES.get(name, "") if not status.startswith("caught by " + str(prop)) else ""))
        n_c = sum(1 for r in rows if r[2].startswith("caught"))
        n_i = sum(1 for r in rows if r[2].startswith("inconclusive"))
        n_m = sum(1 for r in rows if r[2].startswith("missed"))
        f.write("\nTotals: %d caught (exit 1 with a natively replayed violation), %d inconclusive (exit 2: the check refuses to pass but shows no replayed violation), %d missed (exit 0), %d not accepted.\n"
                % (n_c, n_i, n_m, sum(1 for r in rows if r[2].startswith("NOT ACCEPTED"))))
    print("%d accepted, index written" % sum(1 for r in rows if not r[2].startswith("NOT ACCEPTED")))
    for r in sorted(rows):
        print(r[0], r[1], "=>", r[2][:150])


if __name__ == "__main__":
    main()
