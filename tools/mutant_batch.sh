#!/bin/bash
# usage: tools/mutant_batch.sh "<dir> <PROP>" ...   runs sequentially, appends to .cache/mutant_results.txt
cd /verif
for pair in "$@"; do
  set -- $pair
  tools/mutant.sh "$1" "$2" quick >> .cache/mutant_results.txt 2>&1
done
echo "BATCH DONE" >> .cache/mutant_results.txt
