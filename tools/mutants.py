#!/usr/bin/env python3
"""Run seeded changes against their property's check, each on a private copy of /repo's HEAD
(so /repo itself is never touched and several can run at once).

  tools/mutants.py [-j N] [--tier quick] <mutant_dir>[:PROP] ...

PROP defaults to meta.json's "property". Results are appended to .cache/mutants/results.txt and the full log
of every run is kept in .cache/mutants/<name>-<PROP>.log. Scratch copies live under /tmp/mut and are removed."""
import json, os, shutil, subprocess, sys, time
from concurrent.futures import ThreadPoolExecutor

V = "/verif"
OUT = os.path.join(V, ".cache", "mutants")
SCR = "/tmp/mut"


def run_one(spec, tier):
    d, _, prop = spec.partition(":")
    d = os.path.abspath(d)
    name = os.path.basename(d.rstrip("/"))
    meta = json.load(open(os.path.join(d, "meta.json"))) if os.path.exists(os.path.join(d, "meta.json")) else {}
    prop = prop or meta.get("property")
    inst = "%s-%s" % (name, prop)
    work = os.path.join(SCR, inst)
    shutil.rmtree(work, ignore_errors=True)
    os.makedirs(work)
    t0 = time.time()
    p = subprocess.run("git -C /repo archive HEAD | tar -x -C %s" % work, shell=True)
    ap = subprocess.run(["git", "apply", "--directory", ".", os.path.join(d, "patch.diff")], cwd=work, capture_output=True, text=True) \
        if False else subprocess.run(["patch", "-p1", "-s", "-i", os.path.join(d, "patch.diff")], cwd=work, capture_output=True, text=True)
    if ap.returncode != 0:
        res = "%s vs %s: PATCH DOES NOT APPLY (%s)" % (name, prop, (ap.stdout + ap.stderr).strip()[:200])
    else:
        env = dict(os.environ, VERIF_REPO=work, VERIF_INSTANCE=inst, CARGO_NET_OFFLINE="true")
        log = os.path.join(OUT, inst + ".log")
        with open(log, "w") as f:
            r = subprocess.run(["timeout", "5400", "./check", prop, "--tier", tier], cwd=V, env=env, stdout=f, stderr=subprocess.STDOUT)
        txt = open(log).read()
        nv = txt.count("\nVIOLATION ") + (1 if txt.startswith("VIOLATION ") else 0)
        first = ""
        for ln in txt.splitlines():
            if ln.strip().startswith(("lemma:", "instance:")):
                first = ln.strip()[:160]
                break
        res = "%s vs %s: exit %d, %d violations, %ds %s" % (name, prop, r.returncode, nv, time.time() - t0, first)
    shutil.rmtree(work, ignore_errors=True)
    shutil.rmtree(os.path.join(V, ".cache", "inst-" + inst), ignore_errors=True)
    with open(os.path.join(OUT, "results.txt"), "a") as f:
        f.write(res + "\n")
    print(res, flush=True)
    return res


def main():
    args = sys.argv[1:]
    j, tier = 3, "quick"
    specs = []
    while args:
        a = args.pop(0)
        if a == "-j":
            j = int(args.pop(0))
        elif a == "--tier":
            tier = args.pop(0)
        else:
            specs.append(a)
    os.makedirs(OUT, exist_ok=True)
    os.makedirs(SCR, exist_ok=True)
    with ThreadPoolExecutor(max_workers=j) as ex:
        list(ex.map(lambda s: run_one(s, tier), specs))
    with open(os.path.join(OUT, "results.txt"), "a") as f:
        f.write("BATCH DONE %s\n" % time.strftime("%H:%M:%S"))


if __name__ == "__main__":
    main()
