#!/usr/bin/env python3
"""Confirm seeded changes myself, on a private copy of /repo's HEAD:
  1. the demonstration test passes on the unchanged tree,
  2. with the patch applied the repository's whole test suite still passes (144 tests),
  3. with the patch applied the demonstration test fails.
Appends one JSON line per mutant to .cache/confirm.jsonl.   usage: confirm_mutants.py <dir> ..."""
import json, os, re, shutil, subprocess, sys, time

WORK, TGT = "/tmp/cm/work", "/tmp/cm/target"
ENV = dict(os.environ, CARGO_NET_OFFLINE="true", CARGO_TARGET_DIR=TGT)


def sh(cmd, cwd=WORK, timeout=1800):
    p = subprocess.run(cmd, shell=True, cwd=cwd, env=ENV, capture_output=True, text=True, timeout=timeout)
    return p.returncode, p.stdout + p.stderr


def fresh():
    shutil.rmtree(WORK, ignore_errors=True)
    os.makedirs(WORK)
    subprocess.run("git -C /repo archive HEAD | tar -x -C %s" % WORK, shell=True, check=True)
    # the archive carries commit-time mtimes: without this cargo would keep the previous mutant's build of the library
    subprocess.run("find %s/src %s/Cargo.toml -type f -exec touch {} +" % (WORK, WORK), shell=True, check=True)


def summary(out):
    m = re.findall(r"test result: (\w+)\. (\d+) passed; (\d+) failed", out)
    return [(a, int(b), int(c)) for a, b, c in m]


def main():
    os.makedirs("/tmp/cm", exist_ok=True)
    head = subprocess.run("git -C /repo rev-parse --short HEAD", shell=True, capture_output=True, text=True).stdout.strip()
    for d in sys.argv[1:]:
        d = os.path.abspath(d)
        name = os.path.basename(d.rstrip("/"))
        rec = {"name": name, "dir": d, "head": head, "time": time.strftime("%F %T")}
        try:
            fresh()
            demo = os.path.join(d, "demo.rs")
            os.makedirs(os.path.join(WORK, "tests"), exist_ok=True)
            shutil.copy(demo, os.path.join(WORK, "tests", "demo.rs"))
            rc, out = sh("cargo test --offline --test demo 2>&1 | tail -40")
            s = summary(out)
            rec["demo_on_clean"] = "pass" if s and all(x[0] == "ok" for x in s) and sum(x[1] for x in s) > 0 else "FAIL: " + out[-300:]
            rc, out = sh("patch -p1 -s -i %s/patch.diff" % d)
            if rc != 0:
                rec["patch"] = "does not apply: " + out[-200:]
            else:
                rec["patch"] = "applies"
                os.remove(os.path.join(WORK, "tests", "demo.rs"))
                rc, out = sh("cargo test --offline 2>&1 | tail -60")
                s = summary(out)
                rec["suite_on_mutant"] = "%d passed, %d failed" % (sum(x[1] for x in s), sum(x[2] for x in s)) if s else "no result: " + out[-300:]
                shutil.copy(demo, os.path.join(WORK, "tests", "demo.rs"))
                rc, out = sh("cargo test --offline --test demo 2>&1 | tail -60")
                s = summary(out)
                failed = sum(x[2] for x in s) if s else 0
                rec["demo_on_mutant"] = ("fails (%d of %d tests)" % (failed, failed + sum(x[1] for x in s))) if failed else ("DOES NOT FAIL: " + out[-300:])
        except Exception as e:
            rec["error"] = str(e)
        with open("/verif/.cache/confirm.jsonl", "a") as f:
            f.write(json.dumps(rec) + "\n")
        print(json.dumps(rec)[:400], flush=True)
    shutil.rmtree(WORK, ignore_errors=True)


if __name__ == "__main__":
    main()
