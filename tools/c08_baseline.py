#!/usr/bin/env python3
"""Record which C08 lemmas are decided on the current (reference) tree: run after `./check C08 --tier <tier>` on a clean
/repo; reads the covered list from evidence/C08.json and merges it into e2/lemmas/c08_baseline.json."""
import json, sys
tier = sys.argv[1]
ev = json.load(open("/verif/evidence/C08.json"))
assert ev["tier"] == tier, (ev["tier"], tier)
cov = set()
def walk(o):
    if isinstance(o, dict):
        if "words_covered" in o:
            secs = o.get("seconds", {})
            # only lemmas decided with a wide time margin (<= 1/5 of the per-lemma budget) go into the baseline
            cov.update("C08 " + w for w in o["words_covered"] if secs.get(w, 0) <= (24 if tier == "quick" else 20))
        for v in o.values():
            walk(v)
    elif isinstance(o, list):
        for v in o:
            walk(v)
walk(ev)
p = "/verif/e2/lemmas/c08_baseline.json"
try:
    b = json.load(open(p))
except Exception:
    b = {}
b[tier] = sorted(cov)
json.dump(b, open(p, "w"), indent=1)
print(tier, len(cov), "lemmas in the baseline")
