#!/usr/bin/env python3
"""Regenerate /verif/MANIFEST.json from the table below (the single place where claims are listed)."""
import json, os

V = "/verif"
E1 = "Kani 0.68 / CBMC 6.11 bounded model checking (SAT) of generated harnesses over the real crate"
E2 = "mirsym: symbolic execution of rustc's MIR of the real functions, z3 decides every obligation"
TAIL = "; counterexamples replayed on the native build"
NOTE = ("Verdicts are solver results within the bounds/assumptions listed in the evidence file; compositions over whole "
        "programs/histories are paper arguments (DESIGN.md).")

CHECKS = [
    ("C01", "e1+e2", "jump codec decided by Kani for all origins/destinations < 2^31; every control opcode of the real VM and every closing control word of the real compiler decided against the structural semantics from arbitrary states (one-step lemmas); the induction over program structure is on paper"),
    ("C02", "e2", "for every opcode arm and the logging native words: one forward step from an arbitrary recording state followed by one reverse step restores every observable component (solver-decided per path); histories by induction on paper"),
    ("C03", "e1+e2", "clone isolation of bit-string buffers decided by Kani on literal aliasing shapes with symbolic contents; the real State::clone copies every component (mirsym, arbitrary state); independence of the other containers argued from their types"),
    ("C04", "e1", "every bit-string operation against a bit-sequence model over every offset/length shape up to the stated sizes with symbolic contents (Kani), all storage shapes that CBMC can reach"),
    ("C05", "e1", "number <-> bits codecs for every width 1..128, both byte orders, every in-byte offset, symbolic values (Kani)"),
    ("C06", "e2", "every cursor word of the real bitstr_ext.rs from an arbitrary cursor state: offset/remain bookkeeping, failure atomicity, open/close nesting (one-step lemmas, z3)"),
    ("C07", "e1+e2", "pack/emit words hand exactly from_int/from_f/append to the output (E2 lemmas) and the bit-level inverse law on 2-3 field records with symbolic widths' contents (Kani)"),
    ("C08", "e1+e2", "panic freedom of every VM opcode arm and of every native word decided within the path budget, from arbitrary states (mirsym, overflow checks on and off), plus Kani kernels for bit and index arithmetic; words not covered are listed in the evidence, a committed baseline makes the loss of a previously decided word inconclusive"),
    ("C09", "e2", "every arithmetic / comparison / bitwise word of the real arith.rs against the mathematical specification on arbitrary operands (i128 / f64 bit-precise), both overflow-check flavours"),
    ("C10", "e2", "error-path frame lemmas on the real build_from_source with the token-level builder replaced by arbitrary failing builds (leftover control structures, meta contexts, included sources, code, words); next-line-after-failed-run lemmas; composition on paper"),
    ("C11", "e2", "sealing lemmas on all 17 stack accessors from states with arbitrary hidden parts; closing a meta block on the real context_close (<= 3 new words, <= 2 results); whole-program equivalence with the inlined literal on paper"),
    ("C12", "e1+e2", "index arithmetic of nth/slice for every isize index (Kani); order laws of Cell::cmp / Cell::eq on two arbitrary cells incl. tag transparency (mirsym) - the known finding is reported, not suppressed; insert/get/remove/push/collect against the association-list / sequence model with value semantics (one-step lemmas); rpds and std sort trusted given a lawful order; string slicing and text building not covered"),
    ("C13", "e2", "relational lemmas: every covered word run on tagged and untagged operands gives results equal modulo tags, from arbitrary states; with_tags never nests; cmp / == see through tags; words that iterate persistent vectors through adaptor chains or build text are not covered"),
    ("C14", "e2", "stack/heap/instruction limits as one-step lemmas with symbolic limits on the real push_data / alloc_heap / fetch_and_run, plus a MIR scan that nothing else grows the stack or heap"),
    ("C15", "e2", "recording on/off transparency per opcode arm, next vs step, run vs repeated next as one-step relational lemmas"),
    ("C16", "e2", "one call of the real Lex::next from any char boundary of a text of symbolic Unicode characters (<= 4/6 left), long digit strings, and the integer / bit-string printer read back by the literal rules"),
    ("C17", "e2", "failing step leaves ip on the failing instruction (every opcode arm), code_emit keeps the debug map parallel, build errors keep run-time locations, and the real token_location on texts of <= 5/6 symbolic characters"),
    ("C18", "e2", "wrapper level only: the encode/decode words hand the operand's bytes to the codec crates and wrap their answer; the codec crates themselves are not decidable here (see evidence / DESIGN.md)"),
]

NOT_APPLICABLE = []

ENGINE_OF = {"e1": E1, "e2": E2, "e1+e2": E1 + " + " + E2}


def main():
    checks = []
    for pid, eng, text in CHECKS:
        checks.append({
            "property_id": pid,
            "quick_cmd": "./check %s --tier quick" % pid,
            "thorough_cmd": "./check %s --tier thorough" % pid,
            "evidence_file": "%s/evidence/%s.json" % (V, pid),
            "replay_cmd_template": "./check %s --replay {path}" % pid,
            "engine": eng,
            "level_claimed": {"category": "model_checking", "text": text, "design_ref": "DESIGN.md section 5, %s; section 11" % pid},
            "level_note": NOTE,
            "technique": "solver-based checking of the real code: " + ENGINE_OF[eng] + TAIL,
        })
    serves = lambda e: [pid for pid, eng, _ in CHECKS if e in eng.split("+")]
    m = {
        "version": 1,
        "setup_cmd": "./check setup",
        "hooks": {
            "guard": "cargo feature verif_hooks (also active under cfg(kani))",
            "enable": "path dependency on /repo with features [calc_limit, verif_hooks]; MIR dumps use --features calc_limit,verif_hooks",
            "baseline_off_cmd": "cd /repo && cargo test --workspace --no-fail-fast --offline",
            "source_commits": ["dba8d00"],
            "add_only": True,
        },
        "engines": [
            {"name": "e1", "path": V + "/e1", "serves_properties": serves("e1"),
             "kind_free_text": "Kani 0.68 / CBMC 6.11 bounded model checking of generated harnesses over the real crate (path dependency on /repo)"},
            {"name": "e2", "path": V + "/e2", "serves_properties": serves("e2"),
             "kind_free_text": "mirsym: symbolic executor over rustc's MIR dump of /repo (regenerated per source hash), z3 back end, symbolic text model for lexer / token locations, native replay of counterexamples"},
        ],
        "checks": checks,
        "not_applicable": NOT_APPLICABLE,
        "known_findings_file": V + "/known_findings.json",
        "notes": "See DESIGN.md. Exit codes: 0 held within bounds (KNOWN-FINDING lines for listed findings); 1 VIOLATION (replayed natively); 2 inconclusive/machinery.",
    }
    json.dump(m, open(os.path.join(V, "MANIFEST.json"), "w"), indent=1)
    print("MANIFEST.json: %d checks, %d not applicable" % (len(checks), len(NOT_APPLICABLE)))


if __name__ == "__main__":
    main()
