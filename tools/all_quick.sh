#!/bin/bash
# run every quick check in sequence on the current tree; summary in .cache/all_quick.txt
cd /verif
out=.cache/all_quick.txt
: > $out
for p in ${@:-C01 C02 C03 C04 C05 C06 C07 C08 C09 C10 C11 C12 C13 C14 C15 C16 C17 C18}; do
  t0=$(date +%s)
  timeout 5400 ./check $p --tier quick > .cache/run_$p.log 2>&1
  rc=$?
  t1=$(date +%s)
  echo "$p exit=$rc wall=$((t1-t0))s $(grep -c '^VIOLATION' .cache/run_$p.log) violations $(grep -c '^KNOWN-FINDING' .cache/run_$p.log) known" >> $out
done
echo "ALL DONE" >> $out
