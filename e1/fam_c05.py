"""C05 harness families: width x byte order x bit offset grid (literal), values/bytes symbolic."""
from e1.kanirun import Instance, Harness
from lib.common import seed

QUICK_WIDTHS = [1, 2, 3, 7, 8, 9, 12, 13, 16, 24, 31, 32, 33, 63, 64, 65, 100, 127, 128]


def build(tier):
    q = tier == "quick"
    rot = seed() % 8
    widths = QUICK_WIDTHS if q else list(range(1, 129))
    H = []
    B = {True: "true", False: "false"}
    for w in widths:
        for big in (True, False):
            on = "BE" if big else "LE"
            insts = [Instance("op_int_roundtrip(s, %d, %s);" % (w, B[big]), "from_int->to_uint/to_int round trip + byte layout, width %d %s" % (w, on)),
                     Instance("op_int_encode_layout(s, %d, %s);" % (w, B[big]), "from_int bit layout vs reference decoder, width %d %s" % (w, on))]
            H.append(Harness("c05_rt_w%d_%s" % (w, on.lower()), "int_roundtrip", insts, unwind=140))
            offs = [0, 1 + (rot % 3), 4, 7] if q else list(range(8))
            insts = []
            for off in offs:
                dp = B[(off + w) % 2 == 0]
                insts.append(Instance("op_int_decode_at(s, %d, %s, %d, %s);" % (w, B[big], off, dp),
                                      "to_uint/to_int of a %d-bit %s field at bit offset %d vs reference decoder" % (w, on, off)))
            per = 4 if w <= 64 else 2
            for k in range(0, len(insts), per):
                H.append(Harness("c05_dec_w%d_%s_%d" % (w, on.lower(), k // per), "int_decode_at_offset", insts[k:k + per], unwind=140))
    for big in (True, False):
        on = "BE" if big else "LE"
        offs = [0, 3, 7] if q else list(range(8))
        for off in offs:
            H.append(Harness("c05_f64_%s_o%d" % (on.lower(), off), "float", [Instance("op_f64(s, %s, %d);" % (B[big], off), "f64 %s encode layout + decode at bit offset %d (bit-exact incl. NaN payloads)" % (on, off))], unwind=80))
            H.append(Harness("c05_f32_%s_o%d" % (on.lower(), off), "float", [Instance("op_f32(s, %s, %d);" % (B[big], off), "f32 %s encode layout + decode at bit offset %d" % (on, off))], unwind=80))
    return H


MODULES = ["ops_c05"]
FUNCTIONS = ["xeh::bitstr::Bitstr::{from_int, to_uint, to_int, from_f32, to_f32, from_f64, to_f64, substr, detach, to_bytes, to_bytes_with_padding, iter8, bytes_range}",
             "xeh::bitstr::cut_bits"]
ASSUMPTIONS = [
    "width, byte order and bit offset are literals per instance (quick: 19 boundary widths x {BE,LE} x 4 offsets; thorough: all widths 1..=128 x {BE,LE} x offsets 0..7); integer values are fully symbolic i128, buffer bytes fully symbolic",
    "reference decoder (harness): BIG = MSB-first; LITTLE = successive 8-bit groups of the value, least significant group first, final partial group most significant - the layout from_int emits",
    "widths > 128 and width 0 are outside C05 (rejected by the reading words / C08)",
]
BOUNDS = "widths 1..=128, offsets 0..7, unwind 140 (bit loops <= 128, byte loops <= 17) with unwinding assertions"
