"""C04 harness families: Bitstr operations vs. the bit-sequence model over
(alignment x ownership shape x operation), sizes literal, contents symbolic."""
from e1.kanirun import Instance, Harness
from lib.common import seed

SHAPES = ["SHARED", "UNIQUE", "STATIC_SHARED", "STATIC_UNIQUE", "INVERTED", "APPENDED"]


def chunks(xs, n):
    return [xs[i:i + n] for i in range(0, len(xs), n)]


def ranges_quick(rot):
    """Covering set: every start alignment 0..7 x varying end alignments, empty/1-bit/full,
    byte-aligned slices with slack before and/or after."""
    rs = []
    for a in range(8):
        b = 16 + ((a * 5 + 3 + rot) % 8) + 1          # multi-byte, end alignment varies with a
        rs.append((3, a, b))
    rs += [(3, 0, 24), (3, 8, 16), (2, 0, 8), (2, 8, 16), (1, 0, 8), (1, 3, 5), (2, 5, 5), (2, 7, 9), (3, 12, 13)]
    return rs


def ranges_mid():
    """every (start%8, end%8) pair at least once with a multi-byte body, plus short ones."""
    rs = set(ranges_quick(0))
    for a in range(8):
        for e in range(8):
            rs.add((3, a, 16 + e + 1))
    for a in range(8):
        for b in range(a, 9):
            rs.add((1, a, b)) if b <= 8 else None
    return sorted(rs)


def ranges_full():
    rs = set(ranges_mid())
    for l in (1, 2):
        for a in range(8 * l + 1):
            for b in range(a, 8 * l + 1):
                rs.add((l, a, b))
    for a in (0, 3, 8, 11, 16, 21):
        for b in range(a, 25):
            rs.add((3, a, b))
    return sorted(rs)


# second operands: aligned byte, short unaligned, 9 bits ending aligned, a whole byte at an odd bit offset (the case a
# "tail is whole bytes, copy its backing bytes" shortcut gets wrong), aligned second byte, last bit, 13 unaligned bits, two
# bytes, empty
TAILS = [(1, 0, 8), (1, 2, 7), (2, 7, 16), (2, 3, 11), (2, 8, 16), (1, 7, 8), (2, 1, 14), (2, 0, 16), (2, 3, 3)]


def R(l, a, b, sh):
    return "%d, %d, %d, %s" % (l, a, b, sh)


def D(l, a, b, sh):
    return "buf=%dB bits[%d,%d) %s" % (l, a, b, sh)


def build(tier):
    q = tier == "quick"
    rot = seed() % 8
    RQ = ranges_quick(rot)
    RM = ranges_mid()
    # thorough tier: every third range of the mid grid plus all quick ranges (the whole mid grid needs more than the
    # 90 minutes one Kani run is allowed; measured ~2.8 s per harness on 16 cores)
    RM = sorted(set(RM[::3]) | set(RQ))
    RF = ranges_full()
    fam = {}

    def add(family, stmt, desc):
        fam.setdefault(family, []).append(Instance(stmt, desc))

    def shapes_for(l, a, b, shapes):
        return [sh for sh in shapes if not (sh == "APPENDED" and b - a < 2)]

    # Borrowed-and-unique receivers of *growing* operations are outside E1's reach: Cow::to_mut's
    # slice.to_vec() followed by Vec growth makes CBMC's byte-level memcpy encoding explode
    # (OOM after symex, measured 140-300 s on one instance). After to_mut the value is exactly the
    # UNIQUE shape (owned, sole owner, slack), which is covered.
    GROW = [sh for sh in SHAPES if sh != "STATIC_UNIQUE"]

    def explodes(n, sh, tail):
        """empty shared receiver (detach -> Bitstr::new(), a borrowed empty Cow) + unaligned non-empty tail:
        the same Cow::to_mut/to_vec + resize_with pattern; CBMC does not finish (240 s probe)."""
        (l2, a2, b2) = tail
        return n == 0 and sh in ("SHARED", "STATIC_SHARED") and b2 > a2 and not (a2 % 8 == 0 and b2 % 8 == 0)

    # --- unary, ownership-sensitive (mutating or copying) ops: all shapes
    # (the full range grid RF - every (start, end) of 1- and 2-byte buffers - was measured at > 3 h for the whole
    # family set; the thorough tier uses the mid grid: every (start % 8, end % 8) pair with a multi-byte body plus all
    # short ranges of one byte)
    for i, (l, a, b) in enumerate(RQ if q else RM):
        for si, sh in enumerate(shapes_for(l, a, b, SHAPES)):
            if q and (i + si + rot) % 2:
                continue
            add("detach", "op_detach(s, %s);" % R(l, a, b, sh), "detach " + D(l, a, b, sh))
            add("invert", "op_invert(s, %s);" % R(l, a, b, sh), "invert " + D(l, a, b, sh))
    for i, (l, a, b) in enumerate(RQ if q else RM):
        for si, sh in enumerate(shapes_for(l, a, b, SHAPES)):
            if q and (i + si) % 2:
                continue
            add("observe", "op_observe(s, %s);" % R(l, a, b, sh), "observe/export " + D(l, a, b, sh))
            if b - a <= 12 and sh != "STATIC_UNIQUE" and (not q or (i + si) % 4 == 0):
                add("append_self", "op_append_self(s, %s);" % R(l, a, b, sh), "append(self-alias) " + D(l, a, b, sh))
    # --- read-only range ops
    ro_shapes = ["SHARED", "UNIQUE", "STATIC_SHARED", "INVERTED", "APPENDED"]
    for i, (l, a, b) in enumerate(RQ if q else RM):
        n = b - a
        shs = shapes_for(l, a, b, ro_shapes)
        shs = [shs[(i + rot) % len(shs)]] if q else shs[i % 2:i % 2 + 2]
        for sh in shs:
            ks = sorted(set([n // 2, n + 1])) if q else sorted(set([0, n // 2, max(n - 1, 0), n, n + 1]))
            for k in ks:
                add("read", "op_read(s, %s, %d);" % (R(l, a, b, sh), k), "read(%d) " % k + D(l, a, b, sh))
                if not q or i % 2 == 0:
                    add("peek", "op_peek(s, %s, %d);" % (R(l, a, b, sh), k), "peek(%d) " % k + D(l, a, b, sh))
                add("split_at", "op_split_at(s, %s, %d);" % (R(l, a, b, sh), k), "split_at(%d) " % k + D(l, a, b, sh))
                if not q or i % 2 == 1:
                    add("seek", "op_seek(s, %s, %d);" % (R(l, a, b, sh), k), "seek(start+%d) " % k + D(l, a, b, sh))
            pq = [(n // 3, n - n // 3), (0, n + 1)] if q else [(0, n), (n // 3, n - n // 3), (n, n), (1, 0), (0, n + 1)]
            for (p, qq) in pq:
                add("substr", "op_substr(s, %s, %d, %d);" % (R(l, a, b, sh), p, qq), "substr(start+%d,start+%d) " % (p, qq) + D(l, a, b, sh))
    # --- binary ops
    for i, (l, a, b) in enumerate(RQ if q else RM):
        n = b - a
        for si, sh in enumerate(shapes_for(l, a, b, GROW)):
            tl = [TAILS[(i + si + rot) % 4]] + ([TAILS[(i + si + rot + 1) % 4]] if sh == "UNIQUE" else []) if q else TAILS[:3]
            for ti, (l2, a2, b2) in enumerate(tl):
                sh2 = ["SHARED", "UNIQUE"][(i + si + ti) % 2]
                if explodes(n, sh, (l2, a2, b2)):
                    continue
                add("append", "op_append(s, %s, %s);" % (R(l, a, b, sh), R(l2, a2, b2, sh2)),
                    "append " + D(l, a, b, sh) + " ++ " + D(l2, a2, b2, sh2))
            if sh in ("SHARED", "UNIQUE", "STATIC_SHARED", "INVERTED") and ((i + si) % 3 == 0 if q else (i + si) % 2 == 0):
                (l2, a2, b2) = TAILS[(i + si) % 4]
                sh2 = ["SHARED", "UNIQUE"][(i + si) % 2]
                # k == 0 is excluded: the left part is then empty and shared, detach() returns Bitstr::new()
                # (an empty *borrowed* Cow) and CBMC produces garbage on Cow::to_mut + growth (see DESIGN.md)
                for k in ([] if n == 0 else [max(1, n // 2)] if q else sorted(set([1, max(1, n // 2), n + 1]))):
                    add("insert", "op_insert(s, %s, %s, %d);" % (R(l, a, b, sh), R(l2, a2, b2, sh2), k),
                        "insert(%d) " % k + D(l, a, b, sh) + " <- " + D(l2, a2, b2, sh2))
            if (i + si) % (6 if q else 1) == 0:
                (l2, a2, b2) = TAILS[(i + 2 * si) % 4]
                if explodes(n, sh, (l2, a2, b2)):
                    (l2, a2, b2) = TAILS[0]
                add("invert_append", "op_invert_append(s, %s, %s);" % (R(l, a, b, sh), R(l2, a2, b2, "SHARED")),
                    "invert then append " + D(l, a, b, sh) + " ++ " + D(l2, a2, b2, "SHARED"))
            if n <= 16 and (not q or (i + si) % 3 == 0):
                a2 = (a + 3 + si) % 8
                sh2 = "UNIQUE" if si % 2 else "SHARED"
                add("eq", "op_eq(s, %s, %s);" % (R(l, a, b, sh), R(3, a2, a2 + n, sh2)),
                    "eq_with " + D(l, a, b, sh) + " vs " + D(3, a2, a2 + n, sh2))
    # equal alignment on both sides (same start % 8, whole-byte length): the case a "compare the backing bytes" shortcut
    # would get wrong; the grid above always shifts the second operand
    for a in ((4, 1, 7) if q else range(0, 8)):
        for n in ((8,) if q and a != 1 else (8, 16)):
            sh, sh2 = ("SHARED", "UNIQUE") if a % 2 else ("UNIQUE", "SHARED")
            add("eq", "op_eq(s, %s, %s);" % (R(3, a, a + n, sh), R(3, a, a + n, sh2)), "eq_with (same alignment) " + D(3, a, a + n, sh) + " vs " + D(3, a, a + n, sh2))
    # --- chains (depth 2) and full-width argument arithmetic
    for i, (l, a, b) in enumerate(RQ[:8] if q else RM):
        sh = GROW[i % 5]
        if sh == "APPENDED" and b - a < 2:
            sh = "SHARED"           # the APPENDED shape is built from two parts: it needs at least 2 bits (as in shapes_for)
        j = i % 3
        (l2, a2, b2) = TAILS[j]
        sh2 = ["SHARED", "UNIQUE"][i % 2]
        (l3, a3, b3) = TAILS[(j + 1) % 4]
        if b - a == 0:
            continue
        add("chain3", "op_chain3(s, %s, %s, %s);" % (R(l, a, b, sh), R(l2, a2, b2, sh2), R(l3, a3, b3, "SHARED")),
            "(x++y)++z then read apart " + D(l, a, b, sh) + " | " + D(l2, a2, b2, sh2) + " | " + D(l3, a3, b3, "SHARED"))
    for (l, a, b, sh) in [(2, 3, 11, "SHARED"), (2, 0, 16, "UNIQUE"), (3, 8, 16, "STATIC_SHARED"), (1, 0, 0, "SHARED"), (2, 9, 9, "UNIQUE")]:
        add("args_fullwidth", "op_args_fullwidth(s, %s);" % R(l, a, b, sh), "read/peek/split_at/seek/substr with symbolic usize args on " + D(l, a, b, sh))
    per = {"observe": 4, "detach": 6, "invert": 5, "append_self": 4, "hex": 1, "read": 8, "peek": 8, "split_at": 8,
           "seek": 8, "substr": 8, "append": 5, "insert": 4, "invert_append": 4, "eq": 5, "chain3": 2, "args_fullwidth": 1}
    H = []
    for f, insts in fam.items():
        for k, ch in enumerate(chunks(insts, per.get(f, 3))):
            H.append(Harness("c04_%s_%d" % (f, k), f, ch, unwind=50))
    return H


MODULES = ["bitmodel", "ops_c04"]
FUNCTIONS = ["xeh::bitstr::Bitstr::{from, substr, seek, read, peek, split_at, detach, append, append_bits_mut, insert, invert, "
             "eq_with, bits, iter8, to_bytes, to_bytes_with_padding, bytestr, slice, len, start, end, "
             "is_bytestr, is_u8_slice, bytes_range, data_mut}", "xeh::bitstr::{cut_bits, bit_mask, upper_bound_index}",
             "Iterator for Bits / Iter8"]
ASSUMPTIONS = [
    "bounded: backing buffers <= 3 bytes (values <= 24 bits), second operands <= 2 bytes; sizes/offsets/ownership literal per instance, contents symbolic",
    "ownership shapes are built through the public API only (slice+keep parent, slice+drop parent, leaked 'static buffer, result of invert, result of append)",
    "Kani models Rc/Vec/Cow from the real std source; allocation never fails",
    "outside the claim: to_hex_string/from_hex_str (String/char machinery does not finish in CBMC even for one byte); append/insert on a borrowed 'static buffer whose only owner is the receiver (Cow::to_mut + Vec growth explodes in CBMC; after to_mut it is the UNIQUE shape, which is covered); for the same reason append of an unaligned tail / insert into an *empty* receiver that is shared (detach -> Bitstr::new())",
    "quick tier is a covering sub-grid (every start alignment x every shape x every operation class), thorough tier every third range of the mid grid (the (start % 8, end % 8) pairs with a multi-byte body and the short one-byte ranges) plus all quick ranges, x all ownership shapes (the whole mid grid did not finish in 90 min, the exhaustive (start, end) grid was measured at over 3 h; neither is run)",
]
BOUNDS = "buffers<=3B, tails<=2B, unwind 50 with unwinding assertions; longer values outside the claim"
