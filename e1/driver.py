"""Run one property's E1 (Kani) harness set end to end: generate, verify, triage, replay, evidence."""
import json, os, random, re, sys, time
sys.path.insert(0, os.path.dirname(os.path.dirname(os.path.abspath(__file__))))
from lib.common import *
from e1.kanirun import *


MAX_TRIAGE = 6


def match_known(pid, fam, inst_desc, check_desc):
    for f in known_for(pid):
        m = f.get("match", {})
        if m.get("engine", "e1") != "e1":
            continue
        if "family" in m and m["family"] != fam:
            continue
        if "instance_re" in m and not re.search(m["instance_re"], inst_desc):
            continue
        if "check_re" in m and not re.search(m["check_re"], check_desc or ""):
            continue
        return f
    return None


def e1_run(pid, tier, harnesses, modules, assumptions, bounds, functions, jobs=None,
           harness_timeout=600, total_timeout=7200, native_samples=3, extra_cov=None):
    """Returns the part-result dict (see lib/parts.py)."""
    t0 = time.time()
    cdir = os.path.join(CACHE, "e1", "%s-%s" % (pid, tier))
    write_crate(cdir, harnesses, modules)
    jobs = jobs or max(4, min(NCPU, 16))
    say("[%s] %d harnesses, %d instances; running Kani (jobs=%d)" % (
        pid, len(harnesses), sum(len(h.instances) for h in harnesses), jobs))
    res, wall = run_kani(cdir, jobs=jobs, harness_timeout=harness_timeout, total_timeout=total_timeout)
    if "__error__" in res:
        say("[%s] INCONCLUSIVE: %s" % (pid, res["__error__"]))
        return finish(pid, tier, t0, harnesses, {}, [], [], [("driver", res["__error__"])], assumptions, bounds, functions, extra_cov, 0)
    byname = {h.name: h for h in harnesses}
    verdict = {}
    for h in harnesses:
        verdict[h.name] = classify(res.get(h.name))
    problems = [(n, v) for n, v in verdict.items() if v in ("machinery", "inconclusive")]
    failing = [n for n, v in verdict.items() if v == "violation"]
    # cover twins must be satisfied
    for h in harnesses:
        if h.cover and verdict[h.name] == "ok":
            cov = res[h.name]["cover"]
            if not any(s in ("Satisfied", "Covered") for _, s in cov):
                problems.append((h.name, "vacuous: end of harness not reachable (%s)" % cov))
    violations, knowns, untriaged = [], [], []
    if failing:
        # split multi-instance harnesses to attribute exactly
        singles = []
        for n in failing:
            h = byname[n]
            if len(h.instances) == 1:
                singles.append((h, res[n]))
            else:
                for k, inst in enumerate(h.instances):
                    singles.append((Harness("%s_i%d" % (h.name, k), h.family, [inst], h.unwind), None))
        need = [h for h, r in singles if r is None]
        sres = {}
        if need:
            sdir = cdir + "-split"
            write_crate(sdir, need, modules)
            say("[%s] attributing %d failing harness(es): %d single-instance runs" % (pid, len(failing), len(need)))
            sres, w2 = run_kani(sdir, jobs=jobs, harness_timeout=harness_timeout, total_timeout=total_timeout)
            wall += w2
            if "__error__" in sres:
                problems.append(("split", sres["__error__"]))
                sres = {}
        triaged = 0
        for h, r in singles:
            d = cdir if r is not None else cdir + "-split"
            r = r if r is not None else sres.get(h.name)
            v = classify(r)
            if v == "ok":
                continue
            if v != "violation":
                problems.append((h.name, v))
                continue
            triaged += 1
            if triaged > MAX_TRIAGE:
                untriaged.append(h.instances[0].desc)
                continue
            inst = h.instances[0]
            chk = r["failed_checks"][0]
            cdesc = "%s @ %s:%s" % (chk["desc"], os.path.basename(chk["file"] or "?"), chk["line"])
            kf = match_known(pid, h.family, inst.desc, cdesc)
            # concrete counterexample + native replay (dev and release)
            tests, pout = playback_values(d, h.name)
            okd, _ = build_replayer(d, False)
            okr, _ = build_replayer(d, True)
            reproduced = []
            items = tests[0] if tests else None
            if tests and okd and okr:
                for items_ in tests:
                    rd, _ = native_replay(d, h.name, items_, False)
                    rr, _ = native_replay(d, h.name, items_, True)
                    if rd == "panicked" or rr == "panicked":
                        reproduced = [("dev", rd), ("release", rr)]
                        items = items_
                        break
                    reproduced = [("dev", rd), ("release", rr)]
            rec = {"property": pid, "engine": "e1", "harness": h.name, "family": h.family,
                   "instance": inst.desc, "stmt": inst.stmt, "unwind": h.unwind, "modules": modules,
                   "check": cdesc, "function": chk["function"],
                   "concrete_values": items, "native_replay": reproduced}
            if not any(x[1] == "panicked" for x in reproduced):
                problems.append((h.name, "counterexample did not reproduce natively (%s): %s" % (reproduced, cdesc)))
                continue
            if kf:
                knowns.append((kf, rec))
            else:
                os.makedirs(REPLAYS, exist_ok=True)
                rp = os.path.join(REPLAYS, "%s-%s.json" % (pid, h.name))
                json.dump(rec, open(rp, "w"), indent=1)
                rec["replay"] = rp
                violations.append(rec)
    # native sanity traces: same case bodies, concrete random values
    nat = 0
    if native_samples and not violations:
        okd, out = build_replayer(cdir, False)
        if okd:
            rnd = random.Random(seed() * 7919 + 13)
            # the native sanity runs are a translation check, not the deciding step: at most ~400 harnesses are sampled
            oks = [h for h in harnesses if verdict[h.name] == "ok"]
            stride = max(1, len(oks) // 400)
            for h in oks[::stride]:
                for _ in range(native_samples):
                    items = [[rnd.randrange(256) for _ in range(16)] for _ in range(64)]
                    r_, _o = native_replay(cdir, h.name, items, False)
                    if r_ == "panicked":
                        problems.append((h.name, "native run of a verified harness panicked on %s" % items[:6]))
                    nat += 1
        else:
            problems.append(("native", "replayer build failed: " + out[-500:]))
    if untriaged:
        extra_cov = dict(extra_cov or {})
        extra_cov["failing_instances_not_replayed"] = untriaged[:50]
        if not violations:
            problems.append(("triage", "%d failing instances beyond the replay cap" % len(untriaged)))
    return finish(pid, tier, t0, harnesses, res, violations, knowns, problems, assumptions, bounds, functions, extra_cov, nat, wall)


def finish(pid, tier, t0, harnesses, res, violations, knowns, problems, assumptions, bounds, functions, extra_cov, nat, kani_wall=0.0):
    """Build the standard part-result dict (lib.parts) for an E1 run."""
    ok = [h for h in harnesses if res.get(h.name) and classify(res[h.name]) == "ok"]
    inst_ok = sum(len(h.instances) for h in ok)
    props = sum(res[h.name]["props_passed"] for h in ok)
    solver_s = sum((res[h.name]["solver_s"] or 0) for h in harnesses if res.get(h.name))
    symex_s = sum((res[h.name]["symex_s"] or 0) for h in harnesses if res.get(h.name))
    samples = []
    fams = {}
    for h in harnesses:
        fams.setdefault(h.family, []).append(h)
    for fam, hs in fams.items():
        h = hs[0]
        samples.append({"engine": "e1", "family": fam, "harness": h.name, "unwind": h.unwind,
                        "instances": [i.desc for i in h.instances[:3]],
                        "verdict": classify(res.get(h.name)) if res else "not run"})
    detail = {
        "harnesses_total": len(harnesses),
        "harnesses_verified": len(ok),
        "instances_total": sum(len(h.instances) for h in harnesses),
        "instances_verified": inst_ok,
        "cbmc_properties_discharged": props,
        "solver_time_s": round(solver_s, 2),
        "symex_time_s": round(symex_s, 2),
        "kani_wall_s": round(kani_wall, 1),
        "families": {f: {"harnesses": len(hs), "instances": sum(len(h.instances) for h in hs)} for f, hs in fams.items()},
        "engine": "Kani 0.68.0 / CBMC 6.11.0 / cadical; unwinding assertions ON",
    }
    if extra_cov:
        detail.update(extra_cov)
    return {
        "name": "E1/Kani", "engine": "e1",
        "states": inst_ok, "transitions": props, "traces": nat,
        "samples": samples, "violations": violations, "knowns": knowns, "problems": problems,
        "functions": functions, "bounds": bounds, "assumptions": assumptions,
        "solver_s": solver_s, "detail": detail,
    }


def replay_file(path):
    rec = json.load(open(path))
    cdir = os.path.join(CACHE, "e1", "replay-%s" % rec["harness"])
    h = Harness(rec["harness"], rec["family"], [Instance(rec["stmt"], rec["instance"])], rec["unwind"])
    write_crate(cdir, [h], rec["modules"])
    out = []
    for rel in (False, True):
        ok, o = build_replayer(cdir, rel)
        if not ok:
            say("replayer build failed:\n" + o[-2000:])
            return 2
        r, o = native_replay(cdir, rec["harness"], rec["concrete_values"], rel)
        out.append(("release" if rel else "dev", r))
    say("replay %s: %s" % (rec["instance"], out))
    say("  expected failing check: %s" % rec["check"])
    return 1 if any(r == "panicked" for _, r in out) else 0
