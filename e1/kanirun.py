"""E1 driver: generate a Kani harness crate over /repo, run it, triage failures.

A *harness* is a list of *instances*; an instance is one Rust statement calling an op
function from e1/support with literal size/shape parameters. Values are symbolic.
"""
import json, os, re, shutil, sys, time, glob
sys.path.insert(0, os.path.dirname(os.path.dirname(os.path.abspath(__file__))))
from lib.common import *

# address-space cap inherited by every CBMC child: an exploding instance dies alone instead of
# taking the machine down (62 GB, no swap)
CBMC_MEM_GB = 6

SUPPORT = os.path.join(VERIF, "e1", "support")

CARGO_TOML = """[package]
name = "e1h"
version = "0.0.0"
edition = "2021"

[dependencies]
xeh = { path = "%s", default-features = false, features = ["calc_limit", "verif_hooks"] }
base32 = "0.4.0"
base64 = "0.21.2"
z85 = "3.0.5"

[workspace]

[lints.rust]
unexpected_cfgs = { level = "allow", check-cfg = ['cfg(kani)'] }

[profile.dev]
debug = 0
[profile.release]
debug = 0
overflow-checks = false
debug-assertions = false
"""


class Instance:
    def __init__(self, stmt, desc):
        self.stmt = stmt      # Rust statement using `s`
        self.desc = desc      # human-readable description (evidence sample / role signature)


class Harness:
    def __init__(self, name, family, instances, unwind, cover=False):
        self.name = name
        self.family = family
        self.instances = instances
        self.unwind = unwind
        self.cover = cover    # reachability twin: body followed by cover!(true)


def write_if_changed(path, text):
    if os.path.exists(path) and open(path).read() == text:
        return
    os.makedirs(os.path.dirname(path), exist_ok=True)
    with open(path, "w") as f:
        f.write(text)


def write_crate(cdir, harnesses, modules, stubs_fmt=False):
    os.makedirs(os.path.join(cdir, "src", "bin"), exist_ok=True)
    os.makedirs(os.path.join(cdir, ".cargo"), exist_ok=True)
    write_if_changed(os.path.join(cdir, "Cargo.toml"), CARGO_TOML % REPO)
    shutil.copyfile(os.path.join(REPO, "Cargo.lock"), os.path.join(cdir, "Cargo.lock"))
    write_if_changed(os.path.join(cdir, ".cargo", "config.toml"), "[net]\noffline = true\n")
    for m in ["src"] + modules:
        write_if_changed(os.path.join(cdir, "src", m + ".rs"), open(os.path.join(SUPPORT, m + ".rs")).read())
    lib = "#![allow(unused, clippy::all)]\npub mod src;\n" + "".join("pub mod %s;\n" % m for m in modules)
    lib += "pub mod cases;\n#[cfg(kani)]\nmod proofs;\n"
    write_if_changed(os.path.join(cdir, "src", "lib.rs"), lib)
    uses = "use crate::src::Src;\n" + "".join("use crate::%s::*;\n" % m for m in modules)
    cases = ["#![allow(unused)]", uses]
    proofs = ["#![allow(unused)]", "use crate::src::KaniSrc;", "use crate::cases::*;"]
    table = []
    for h in harnesses:
        cases.append("pub fn h_%s<S: Src>(s: &mut S) {" % h.name)
        for i in h.instances:
            cases.append("    { %s }" % i.stmt)
        cases.append("}")
        proofs.append("#[kani::proof]\n#[kani::unwind(%d)]\nfn p_%s() { h_%s(&mut KaniSrc)%s }" % (
            h.unwind, h.name, h.name, "; kani::cover!(true, \"reached end\")" if h.cover else ""))
        table.append('        "%s" => e1h::cases::h_%s(&mut src),' % (h.name, h.name))
    write_if_changed(os.path.join(cdir, "src", "cases.rs"), "\n".join(cases) + "\n")
    write_if_changed(os.path.join(cdir, "src", "proofs.rs"), "\n".join(proofs) + "\n")
    replay = """use e1h::src::{VecSrc, AssumeViolated};
fn main() {
    let args: Vec<String> = std::env::args().collect();
    let name = args[1].clone();
    let items: Vec<Vec<u8>> = args[2..].iter().map(|h| {
        (0..h.len() / 2).map(|i| u8::from_str_radix(&h[2 * i..2 * i + 2], 16).unwrap()).collect()
    }).collect();
    let r = std::panic::catch_unwind(move || {
        let mut src = VecSrc::new(items);
        match name.as_str() {
%s
            _ => { eprintln!("unknown harness"); std::process::exit(4); }
        }
    });
    match r {
        Ok(()) => { println!("REPLAY: passed"); std::process::exit(0); }
        Err(e) => {
            if e.downcast_ref::<AssumeViolated>().is_some() {
                println!("REPLAY: assumption violated"); std::process::exit(3);
            }
            println!("REPLAY: panicked"); std::process::exit(1);
        }
    }
}
""" % "\n".join(table)
    write_if_changed(os.path.join(cdir, "src", "bin", "replay.rs"), replay)


def run_kani(cdir, jobs=12, harness_timeout=600, total_timeout=3600, only=None, mem_gb=None, log=None):
    """Returns dict harness-name -> result dict."""
    out_json = os.path.join(cdir, "kani-results.json")
    if os.path.exists(out_json):
        os.remove(out_json)
    cmd = ["cargo", "kani", "-j", str(jobs), "--output-format", "terse", "--no-assertion-reach-checks",
           "-Z", "unstable-options", "--harness-timeout", str(harness_timeout),
           "--export-json", out_json]
    if only:
        for h in only:
            cmd += ["--harness", "p_" + h]
        cmd += ["--exact"] if False else []
    t0 = time.time()
    rc, out = run(cmd, cwd=cdir, timeout=total_timeout, log=log or os.path.join(cdir, "kani.log"), mem_gb=mem_gb or CBMC_MEM_GB)
    wall = time.time() - t0
    res = {}
    if not os.path.exists(out_json):
        return {"__error__": "kani produced no result file (rc=%s): %s" % (rc, out[-2000:])}, wall
    d = json.load(open(out_json))
    stats = {c["harness_id"]: (c.get("cbmc_stats") or {}) for c in d.get("cbmc", [])}
    props = {c["harness_id"]: (c.get("property_details") or {}) for c in d.get("property_details", [])}
    for r in d["verification_results"]["results"]:
        hid = r["harness_id"]
        name = hid.split("::")[-1]
        name = name[2:] if name.startswith("p_") else name
        failed = [c for c in r.get("checks", []) if c.get("status") not in ("Success", "Unreachable", "Satisfied", "Unsatisfiable", "Covered", "Uncovered")]
        cover = [c for c in r.get("checks", []) if c.get("category") == "cover" or "cover" in (c.get("description") or "").lower() and c.get("status") in ("Satisfied", "Unsatisfiable", "Covered", "Uncovered")]
        st = r.get("status")
        pd = props.get(hid, {})
        res[name] = {
            "status": st,
            "failed_checks": [{"desc": c.get("description"), "function": c.get("function"),
                               "file": c.get("location", {}).get("file"), "line": c.get("location", {}).get("line"),
                               "status": c.get("status")} for c in failed],
            "cover": [(c.get("description"), c.get("status")) for c in cover],
            "props_total": pd.get("total_properties", 0),
            "props_passed": pd.get("passed", 0),
            "props_unreachable": pd.get("unreachable", 0),
            "solver_s": (stats.get(hid) or {}).get("runtime_decision_procedure_s", 0.0) or 0.0,
            "symex_s": (stats.get(hid) or {}).get("runtime_symex_s", 0.0) or 0.0,
            "time_s": r.get("duration_ms", 0) / 1000.0,
        }
    res["__raw_rc__"] = rc
    return res, wall


def classify(r):
    """ok | violation | machinery (unwinding bound / unsupported) | inconclusive"""
    if r is None:
        return "inconclusive"
    st = r["status"]
    if st == "Success" and not r["failed_checks"]:
        return "ok"
    if st == "Failure":
        if not r["failed_checks"]:
            return "inconclusive"   # OOM / error without a failing property
        descs = [c["desc"] or "" for c in r["failed_checks"]]
        if all(d.startswith("unwinding assertion") for d in descs):
            return "machinery"
        if any("is not currently supported by Kani" in d or "unsupported" in d.lower() for d in descs):
            return "machinery"
        if any((c["status"] or "") in ("Undetermined",) for c in r["failed_checks"]) and not any((c["status"] or "") == "Failure" for c in r["failed_checks"]):
            return "inconclusive"
        return "violation"
    return "inconclusive"


def playback_values(cdir, hname, timeout=1200):
    """Re-run one harness with concrete playback and parse the byte vectors."""
    cmd = ["cargo", "kani", "--harness", "p_" + hname, "--output-format", "terse",
           "-Z", "concrete-playback", "--concrete-playback=print"]
    rc, out = run(cmd, cwd=cdir, timeout=timeout, log=os.path.join(cdir, "playback-%s.log" % hname))
    tests = []
    for m in re.finditer(r"let concrete_vals: Vec<Vec<u8>> = vec!\[(.*?)\n\s*\];", out, re.S):
        items = []
        for vm in re.finditer(r"vec!\[([0-9, ]*)\]", m.group(1)):
            nums = [int(x) for x in vm.group(1).replace(" ", "").split(",") if x != ""]
            items.append(nums)
        tests.append(items)
    return tests, out


def build_replayer(cdir, release):
    cmd = ["cargo", "build", "--offline", "--bin", "replay"] + (["--release"] if release else [])
    rc, out = run(cmd, cwd=cdir, timeout=1200, env={"CARGO_TARGET_DIR": os.path.join(cdir, "target-native")},
                  log=os.path.join(cdir, "build-replay-%s.log" % ("rel" if release else "dev")))
    return rc == 0, out


def native_replay(cdir, hname, items, release):
    exe = os.path.join(cdir, "target-native", "release" if release else "debug", "replay")
    args = [exe, hname] + ["".join("%02x" % b for b in it) for it in items]
    rc, out = run(args, cwd=cdir, timeout=120)
    return {0: "passed", 1: "panicked", 3: "assume"}.get(rc, "rc=%s" % rc), out
