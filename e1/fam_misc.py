"""Small E1 families: C01-L1 jump codec, C12 index kernels, C08 kernels, C03-L1 isolation, C07 records, C18 codecs."""
from e1.kanirun import Instance, Harness
from lib.common import seed

B = {True: "true", False: "false"}


def c01_l1():
    return [Harness("c01_jump_codec", "jump_codec", [Instance("op_jump_codec(s);", "from_to(o,d).calculate(o)==d and injectivity, o,d symbolic < 2^31")], unwind=4, cover=True)]


def c12_index():
    return [Harness("c12_relative_index", "relative_index", [Instance("op_relative_index(s);", "relative_index(len, idx) vs sequence model; idx any isize, len <= 2^40")], unwind=4, cover=True),
            Harness("c12_slicing_index", "slicing_index", [Instance("op_slicing_index(s);", "slicing_index + take/skip arithmetic; idx any isize, len <= 2^40")], unwind=4, cover=True)]


def c08_kernels():
    H = [Harness("c08_bit_kernels", "bit_kernels", [Instance("op_bit_kernels(s);", "cut_bits/bit_mask/upper_bound_index total + exact on their domain")], unwind=4, cover=True),
         Harness("c08_fmt_flags", "fmt_flags", [Instance("op_fmt_flags(s);", "FmtFlags accessors on any raw usize")], unwind=4, cover=True)]
    for i, (l, a, b, sh) in enumerate([(2, 3, 11, "SHARED"), (2, 0, 16, "UNIQUE"), (3, 8, 16, "STATIC_SHARED"), (1, 0, 0, "SHARED"), (2, 9, 9, "UNIQUE")]):
        H.append(Harness("c08_bitstr_args_%d" % i, "bitstr_args_fullwidth",
                         [Instance("op_args_fullwidth(s, %d, %d, %d, %s);" % (l, a, b, sh), "Bitstr read/peek/split_at/seek/substr, symbolic usize args, value buf=%dB bits[%d,%d) %s" % (l, a, b, sh))], unwind=50))
    for big in (True, False):
        H.append(Harness("c08_int_width0_%s" % ("be" if big else "le"), "int_width0",
                         [Instance("op_int_width0(s, %s);" % B[big], "to_int/to_uint on an empty field (%s)" % ("BE" if big else "LE"))], unwind=20))
    return H


def c03_iso(tier):
    q = tier == "quick"
    rot = seed() % 4
    # (l, a, b, a2, b2): x range, alias range
    geo = [(2, 3, 11, 3, 11),    # alias = clone of x
           (2, 3, 11, 0, 16),    # alias = parent
           (2, 0, 8, 8, 16),     # adjacent sibling, byte aligned (fast paths)
           (2, 2, 9, 5, 14),     # overlapping sibling
           (2, 8, 16, 0, 16),    # x is the tail, alias the whole
           (3, 4, 20, 10, 13),   # alias strictly inside x
           (3, 0, 24, 0, 24)]    # both the whole buffer
    if not q:
        geo += [(1, 0, 8, 0, 8), (1, 1, 7, 0, 8), (2, 0, 16, 7, 9), (3, 8, 16, 8, 16), (3, 7, 17, 0, 7), (2, 5, 5, 0, 16), (3, 1, 23, 23, 24)]
    ops = ["OP_INVERT", "OP_APPEND", "OP_INSERT", "OP_DETACH_INVERT", "OP_APPEND_THEN_INVERT", "OP_READ_INVERT"]
    tails = [(1, 0, 8), (1, 2, 7), (2, 7, 16)]
    insts = []
    for gi, (l, a, b, a2, b2) in enumerate(geo):
        for oi, op in enumerate(ops):
            for stat in (False, True):
                for keep in (True, False):
                    if q and (gi + oi + (1 if stat else 0) + (2 if keep else 0) + rot) % 4 != 0:
                        continue
                    if b - a < 2 and op in ("OP_INSERT", "OP_READ_INVERT"):
                        continue
                    (tl, ta, tb) = tails[(gi + oi) % 3]
                    if b == a and op in ("OP_APPEND", "OP_APPEND_THEN_INVERT"):
                        # growing an *empty* value: detach() yields Bitstr::new() (an empty borrowed Cow) and CBMC does not get
                        # through Cow::to_mut + Vec growth (OOM / no verdict; same exclusion as in the C04 grid, DESIGN.md 11.2)
                        continue
                    insts.append(Instance("op_isolation(s, %d, %d, %d, %d, %d, %s, %s, %s, %d, %d, %d);" % (l, a, b, a2, b2, B[stat], B[keep], op, tl, ta, tb),
                                          "%s on x=bits[%d,%d) of a %dB %s buffer; alias y=bits[%d,%d)%s; tail %dB[%d,%d)" % (
                                              op[3:].lower(), a, b, l, "borrowed" if stat else "owned", a2, b2, ", parent alive" if keep else "", tl, ta, tb)))
    H = []
    for k in range(0, len(insts), 3):
        H.append(Harness("c03_iso_%d" % (k // 3), "isolation", insts[k:k + 3], unwind=50))
    return H


C07_WIDTHS = [1, 3, 4, 7, 8, 9, 12, 16, 24, 32, 63, 64, 65, 127, 128]


def c07_records(tier):
    q = tier == "quick"
    rot = seed() % 5
    insts = []
    W = C07_WIDTHS
    n = 0
    # first-field widths cover every residue mod 8, so later fields start at every bit alignment
    firsts = [1, 2, 3, 4, 5, 6, 7, 8, 9, 12, 15, 63, 65]
    for i, w0 in enumerate(firsts):
        for k in range(2 if q else 6):
            j = (i * 3 + k * 4 + rot) % len(W)
            w1, w2 = W[j], W[(j + 5 + i) % len(W)]
            b0, b1, b2 = (n % 2 == 0), (n % 3 == 0), (n % 5 < 2)
            s0, s1, s2 = (n % 2 == 1), (n % 4 < 2), (n % 3 == 1)
            split = n % 2
            insts.append(("record3", Instance(
                "op_record3(s, %d, %s, %s, %d, %s, %s, %d, %s, %s, %d);" % (w0, B[b0], B[s0], w1, B[b1], B[s1], w2, B[b2], B[s2], split),
                "%s%d%s | %s%d%s | %s%d%s, assembled as %s" % (
                    "i" if s0 else "u", w0, "be" if b0 else "le", "i" if s1 else "u", w1, "be" if b1 else "le", "i" if s2 else "u", w2, "be" if b2 else "le",
                    "f0++(f1++f2)" if split else "(f0++f1)++f2"))))
            insts.append(("record2", Instance(
                "op_record2(s, %d, %s, %s, %d, %s, %s);" % (w0, B[b1], B[s1], w2, B[b0], B[s0]),
                "%s%d%s | %s%d%s" % ("i" if s1 else "u", w0, "be" if b1 else "le", "i" if s0 else "u", w2, "be" if b0 else "le"))))
            n += 1
    for k, w0 in enumerate([1, 3, 4, 7, 9, 12, 13, 63] if not q else [3, 7, 12]):
        for f32_ in (False, True):
            fbig = (k % 2 == 0) != f32_
            insts.append(("record_float", Instance("op_record_float(s, %d, %s, %s, %s, %d, %s);" % (w0, B[k % 2 == 1], B[fbig], B[f32_], W[(k * 3) % len(W)], B[k % 3 == 0]),
                                                   "u%d | %s %s | i%d: float field at bit offset %d" % (w0, "f32" if f32_ else "f64", "be" if fbig else "le", W[(k * 3) % len(W)], w0 % 8))))
    for k, (w0, ra, rb) in enumerate([(5, 3, 10), (8, 0, 16), (13, 7, 9), (1, 4, 4), (8, 3, 11), (16, 5, 13)] if q else [(5, 3, 10), (8, 0, 16), (13, 7, 9), (1, 4, 4), (8, 3, 11), (16, 5, 13), (7, 1, 16), (16, 8, 16), (3, 0, 5), (12, 2, 15), (24, 7, 15)]):
        insts.append(("record_raw", Instance("op_record_raw(s, %d, %s, %d, %d, %d, %s);" % (w0, B[k % 2 == 0], ra, rb, W[(k * 2 + 1) % 8], B[k % 2 == 1]),
                                             "u%d | raw bits[%d,%d) | byte | u%d" % (w0, ra, rb, W[(k * 2 + 1) % 8]))))
    H = []
    for k, (fam, inst) in enumerate(insts):
        # longest loop = bit loop over the longest concatenated tail (<= 3 x 128 bits)
        H.append(Harness("c07_%s_%d" % (fam, k), fam, [inst], unwind=400))
    return H


def c18_codecs(tier):
    q = tier == "quick"
    H = []
    for n in range(0, 4 if q else 9):
        H.append(Harness("c18_base32_rfc_%d" % n, "base32", [Instance("op_base32_rt(s, %d, false);" % n, "base32 RFC4648 padded: decode(encode(b))==b, %d symbolic bytes" % n)], unwind=40))
        H.append(Harness("c18_base32_crock_%d" % n, "base32hex", [Instance("op_base32_rt(s, %d, true);" % n, "base32 Crockford: decode(encode(b))==b, %d symbolic bytes" % n)], unwind=40))
        H.append(Harness("c18_base64_%d" % n, "base64", [Instance("op_base64_rt(s, %d);" % n, "base64 STANDARD: decode(encode(b))==b, %d symbolic bytes" % n)], unwind=40))
        if n % 4 == 0:
            H.append(Harness("c18_z85_%d" % n, "zero85", [Instance("op_z85_rt(s, %d);" % n, "z85: decode(encode(b))==b, %d symbolic bytes" % n)], unwind=40))
    return H
