//! C04 operation checks: every public Bitstr operation against the bit model.
//! All size/offset/shape parameters are literals at the (generated) call sites.

use crate::bitmodel::*;
use crate::src::Src;
use xeh::bitstr::Bitstr;

#[inline(always)]
pub fn op_observe<S: Src>(s: &mut S, l: usize, a: usize, b: usize, shape: u8) {
    let r = mk(s, l, a, b, shape);
    check_val(&r.v, r.model, r.len);
    check_val_bytes(&r.v, r.model, r.len);
    check_parent(&r);
}

/// read(n): top n bits out, receiver keeps the rest; n > len => None and nothing moves.
#[inline(always)]
pub fn op_read<S: Src>(s: &mut S, l: usize, a: usize, b: usize, shape: u8, n: usize) {
    let mut r = mk(s, l, a, b, shape);
    let got = r.v.read(n);
    if n <= r.len {
        let g = got.unwrap();
        check_val(&g, r.model >> (r.len - n), n);
        check_val(&r.v, r.model & mask(r.len - n), r.len - n);
    } else {
        assert!(got.is_none());
        check_val(&r.v, r.model, r.len);
    }
    check_parent(&r);
}

#[inline(always)]
pub fn op_peek<S: Src>(s: &mut S, l: usize, a: usize, b: usize, shape: u8, n: usize) {
    let r = mk(s, l, a, b, shape);
    let got = r.v.peek(n);
    if n <= r.len {
        let g = got.unwrap();
        check_val(&g, r.model >> (r.len - n), n);
    } else {
        assert!(got.is_none());
    }
    check_val(&r.v, r.model, r.len);
    check_parent(&r);
}

#[inline(always)]
pub fn op_split_at<S: Src>(s: &mut S, l: usize, a: usize, b: usize, shape: u8, k: usize) {
    let r = mk(s, l, a, b, shape);
    let got = r.v.split_at(k);
    if k <= r.len {
        let (x, y) = got.unwrap();
        check_val(&x, r.model >> (r.len - k), k);
        check_val(&y, r.model & mask(r.len - k), r.len - k);
    } else {
        assert!(got.is_none());
    }
    check_val(&r.v, r.model, r.len);
    check_parent(&r);
}

/// seek(start()+k): positions are absolute in the value's own coordinate system
/// (start()..=end()); the model only talks about distances from start().
#[inline(always)]
pub fn op_seek<S: Src>(s: &mut S, l: usize, a: usize, b: usize, shape: u8, k: usize) {
    let r = mk(s, l, a, b, shape);
    let st = r.v.start();
    let got = r.v.seek(st + k);
    if k <= r.len {
        let g = got.unwrap();
        check_val(&g, r.model & mask(r.len - k), r.len - k);
    } else {
        assert!(got.is_none());
    }
    if st > 0 {
        assert!(r.v.seek(st - 1).is_none());
    }
    check_val(&r.v, r.model, r.len);
    check_parent(&r);
}

#[inline(always)]
pub fn op_substr<S: Src>(s: &mut S, l: usize, a: usize, b: usize, shape: u8, p: usize, q: usize) {
    let r = mk(s, l, a, b, shape);
    let st = r.v.start();
    let got = r.v.substr(st + p, st + q);
    if p <= q && q <= r.len {
        let g = got.unwrap();
        check_val(&g, (r.model >> (r.len - q)) & mask(q - p), q - p);
    } else {
        assert!(got.is_none());
    }
    check_val(&r.v, r.model, r.len);
    check_parent(&r);
}

#[inline(always)]
pub fn op_detach<S: Src>(s: &mut S, l: usize, a: usize, b: usize, shape: u8) {
    let r = mk(s, l, a, b, shape);
    let Rep { v, keep, buf, l, model, len } = r;
    let d = v.detach();
    check_val(&d, model, len);
    check_val_bytes(&d, model, len);
    let r2 = Rep { v: d, keep, buf, l, model, len };
    check_parent(&r2);
}

#[inline(always)]
pub fn op_invert<S: Src>(s: &mut S, l: usize, a: usize, b: usize, shape: u8) {
    let r = mk(s, l, a, b, shape);
    let Rep { v, keep, buf, l, model, len } = r;
    let d = v.invert();
    let m2 = (!model) & mask(len);
    check_val(&d, m2, len);
    check_val_bytes(&d, m2, len);
    // involution through the same (now possibly uniquely-owned) buffer
    let d2 = d.invert();
    check_val(&d2, model, len);
    let r2 = Rep { v: d2, keep, buf, l, model, len };
    check_parent(&r2);
}

#[inline(always)]
#[allow(clippy::too_many_arguments)]
pub fn op_append<S: Src>(
    s: &mut S,
    l: usize, a: usize, b: usize, shape: u8,
    l2: usize, a2: usize, b2: usize, shape2: u8,
) {
    let x = mk(s, l, a, b, shape);
    let y = mk(s, l2, a2, b2, shape2);
    let Rep { v, keep, buf, l, model, len } = x;
    let r = v.append(&y.v);
    let want = (model << y.len) | y.model;
    check_val(&r, want, len + y.len);
    check_val_bytes(&r, want, len + y.len);
    // operands / aliases untouched
    check_val(&y.v, y.model, y.len);
    check_parent(&y);
    let x2 = Rep { v: r, keep, buf, l, model, len };
    check_parent(&x2);
}

/// x.append(x-alias): tail aliases the receiver's own buffer.
#[inline(always)]
pub fn op_append_self<S: Src>(s: &mut S, l: usize, a: usize, b: usize, shape: u8) {
    let x = mk(s, l, a, b, shape);
    let tail = x.v.clone();
    let Rep { v, keep, buf, l, model, len } = x;
    let r = v.append(&tail);
    let want = (model << len) | model;
    check_val(&r, want, 2 * len);
    check_val(&tail, model, len);
    let x2 = Rep { v: r, keep, buf, l, model, len };
    check_parent(&x2);
}

#[inline(always)]
#[allow(clippy::too_many_arguments)]
pub fn op_insert<S: Src>(
    s: &mut S,
    l: usize, a: usize, b: usize, shape: u8,
    l2: usize, a2: usize, b2: usize, shape2: u8,
    k: usize,
) {
    let x = mk(s, l, a, b, shape);
    let y = mk(s, l2, a2, b2, shape2);
    let Rep { v, keep, buf, l, model, len } = x;
    let got = v.insert(k, &y.v);
    if k <= len {
        let r = got.unwrap();
        let left = model >> (len - k);
        let right = model & mask(len - k);
        let want = (((left << y.len) | y.model) << (len - k)) | right;
        check_val(&r, want, len + y.len);
        let x2 = Rep { v: r, keep, buf, l, model, len };
        check_parent(&x2);
    } else {
        assert!(got.is_none());
    }
    check_val(&y.v, y.model, y.len);
    check_parent(&y);
}

#[inline(always)]
#[allow(clippy::too_many_arguments)]
pub fn op_eq<S: Src>(
    s: &mut S,
    l: usize, a: usize, b: usize, shape: u8,
    l2: usize, a2: usize, b2: usize, shape2: u8,
) {
    let x = mk(s, l, a, b, shape);
    let y = mk(s, l2, a2, b2, shape2);
    let want = x.len == y.len && x.model == y.model;
    assert!(x.v.eq_with(&y.v) == want);
    assert!(y.v.eq_with(&x.v) == want);
    assert!((x.v == y.v) == want);
    assert!(x.v.eq_with(&x.v.clone()));
}

/// depth-2 chain: (x ++ y) ++ z, then read it apart again.
#[inline(always)]
#[allow(clippy::too_many_arguments)]
pub fn op_chain3<S: Src>(
    s: &mut S,
    l: usize, a: usize, b: usize, shape: u8,
    l2: usize, a2: usize, b2: usize, shape2: u8,
    l3: usize, a3: usize, b3: usize, shape3: u8,
) {
    let x = mk(s, l, a, b, shape);
    let y = mk(s, l2, a2, b2, shape2);
    let z = mk(s, l3, a3, b3, shape3);
    let (xm, xl) = (x.model, x.len);
    let r = x.v.append(&y.v).append(&z.v);
    let want = (((xm << y.len) | y.model) << z.len) | z.model;
    let total = xl + y.len + z.len;
    check_val(&r, want, total);
    let mut rr = r;
    let p = rr.read(xl).unwrap();
    check_val(&p, xm, xl);
    let q = rr.read(y.len).unwrap();
    check_val(&q, y.model, y.len);
    check_val(&rr, z.model, z.len);
    check_val(&y.v, y.model, y.len);
    check_val(&z.v, z.model, z.len);
}

/// invert then append (in-place mutation followed by growth of the same buffer).
#[inline(always)]
#[allow(clippy::too_many_arguments)]
pub fn op_invert_append<S: Src>(
    s: &mut S,
    l: usize, a: usize, b: usize, shape: u8,
    l2: usize, a2: usize, b2: usize, shape2: u8,
) {
    let x = mk(s, l, a, b, shape);
    let y = mk(s, l2, a2, b2, shape2);
    let (xm, xl) = (x.model, x.len);
    let r = x.v.invert().append(&y.v);
    let want = ((((!xm) & mask(xl)) << y.len)) | y.model;
    check_val(&r, want, xl + y.len);
    check_val(&y.v, y.model, y.len);
}

/// hex export / import round trip for lengths that are a multiple of 4.
#[inline(always)]
pub fn op_hex<S: Src>(s: &mut S, l: usize, a: usize, b: usize, shape: u8) {
    let r = mk(s, l, a, b, shape);
    let h = r.v.to_hex_string();
    assert!(h.len() == r.len / 4);
    let back = Bitstr::from_hex_str(&h);
    match back {
        Ok(x) => check_val(&x, r.model, r.len),
        Err(_) => { assert!(false); }
    }
}

/// Integer-only family: symbolic full-width argument on a fixed small value.
/// Result is Some exactly when the request fits; never a panic.
#[inline(always)]
pub fn op_args_fullwidth<S: Src>(s: &mut S, l: usize, a: usize, b: usize, shape: u8) {
    let r = mk(s, l, a, b, shape);
    let n = s.usize();
    let len = r.len;
    let mut c = r.v.clone();
    assert!(c.read(n).is_some() == (n <= len));
    assert!(r.v.peek(n).is_some() == (n <= len));
    assert!(r.v.split_at(n).is_some() == (n <= len));
    let st = r.v.start();
    let en = r.v.end();
    assert!(r.v.seek(n).is_some() == (st <= n && n <= en));
    let m = s.usize();
    assert!(r.v.substr(n, m).is_some() == (st <= n && n <= m && m <= en));
}
