//! Integer kernels: jump codec (C01-L1), index arithmetic (C12), total functions (C08).
use crate::src::Src;
use xeh::verif_hooks::{bit_mask, cut_bits, relative_index, slicing_index, FmtFlags, RelativeJump};

/// C01-L1: from_to(o, d).calculate(o) == d for every origin/destination below 2^31.
#[inline(always)]
pub fn op_jump_codec<S: Src>(s: &mut S) {
    let o = s.usize();
    let d = s.usize();
    s.assume(o < (1usize << 31) && d < (1usize << 31));
    let j = RelativeJump::from_to(o, d);
    assert!(j.calculate(o) == d);
    // the encoding is injective in the destination: equal offsets => equal destinations
    let d2 = s.usize();
    s.assume(d2 < (1usize << 31));
    let j2 = RelativeJump::from_to(o, d2);
    assert!((j == j2) == (d == d2));
}

/// C12: relative_index against the sequence model for every isize index.
#[inline(always)]
pub fn op_relative_index<S: Src>(s: &mut S) {
    let len = s.usize();
    let idx = s.isize();
    s.assume(len <= (1usize << 40));
    let got = relative_index(len, idx);
    let want: Option<usize> = if idx < 0 {
        let r = -(idx as i128);
        if r > len as i128 {
            None
        } else {
            Some((len as i128 - r) as usize)
        }
    } else if (idx as i128) < (len as i128) {
        Some(idx as usize)
    } else {
        None
    };
    assert!(got == want);
    if let Some(i) = got {
        assert!(i < len);
    }
}

/// C12: slicing_index clamps, and slice_vec/slice_str's take/skip arithmetic never underflows.
#[inline(always)]
pub fn op_slicing_index<S: Src>(s: &mut S) {
    let len = s.usize();
    let a = s.isize();
    let b = s.isize();
    s.assume(len <= (1usize << 40));
    let model = |i: isize| -> usize {
        if i < 0 {
            let r = -(i as i128);
            if r > len as i128 {
                0
            } else {
                (len as i128 - r) as usize
            }
        } else if (i as i128) > (len as i128) {
            len
        } else {
            i as usize
        }
    };
    let start = slicing_index(a, len);
    let end = slicing_index(b, len);
    assert!(start == model(a));
    assert!(end == model(b));
    assert!(start <= len && end <= len);
    // the expression used by slice_vec / slice_str
    let take = end - start.min(end);
    assert!(take == if end > start { end - start } else { 0 });
    assert!(start + take <= len);
}

/// C08: bit kernels are total on their documented domain.
#[inline(always)]
pub fn op_bit_kernels<S: Src>(s: &mut S) {
    let x = s.u8();
    let start = s.usize();
    let end = s.usize();
    s.assume(start < end);
    s.assume(end <= (1usize << 62));
    let (v, n) = cut_bits(x, start, end);
    let sb = start % 8;
    assert!(n >= 1 && n <= 8 - sb && n <= end - start);
    assert!(n == if end - start < 8 - sb { end - start } else { 8 - sb });
    let want = ((x as u32) >> (8 - sb - n)) & ((1u32 << n) - 1);
    assert!(v as u32 == want);
    let l = s.usize();
    s.assume(l <= 8);
    assert!(bit_mask(l) as u32 == (1u32 << l) - 1);
    let nb = s.usize();
    let ub = xeh::bitstr::upper_bound_index(nb);
    assert!(ub == nb / 8 + if nb % 8 > 0 { 1 } else { 0 });
}

/// C08: FmtFlags accessors are total and independent bit fields.
#[inline(always)]
pub fn op_fmt_flags<S: Src>(s: &mut S) {
    let raw = s.usize();
    let f = FmtFlags::from_raw(raw);
    let base = f.base();
    assert!(base == raw & 0xff);
    let n = s.usize();
    let t = s.bool();
    let f2 = FmtFlags::from_raw(raw).set_base(n).set_show_prefix(t);
    assert!(f2.base() == n & 0xff);
    assert!(f2.show_prefix() == t);
    let f3 = FmtFlags::from_raw(raw).set_upcase(t);
    assert!(f3.upcase() == t);
    assert!(f3.base() == base);
    let f4 = FmtFlags::from_raw(raw).set_show_tags(t).set_fitscreen(!t);
    assert!(f4.show_tags() == t && f4.fitscreen() == !t);
    assert!(f4.into_raw() & 0xff == base);
}
