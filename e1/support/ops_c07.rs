//! C07 (bit level): pack a record of fields with from_int/from_fN, concatenate with append (the
//! call >bitstr / emit make), parse back with read + to_int/to_uint/to_fN.
use crate::src::Src;
use xeh::bitstr::{Bitstr, Byteorder, BIG, LITTLE};

/// The empty value every concatenation starts from. The interpreter uses `Bitstr::new()` (an empty
/// *borrowed* Cow); CBMC does not get through std's `Cow::to_mut` on a borrowed slice followed by a
/// read-back (OOM, see DESIGN.md), so the harness starts from the empty *owned* buffer instead.
/// Both are the empty bit sequence; they differ only inside std's Cow.
#[inline(always)]
fn empty() -> Bitstr {
    Bitstr::from(Vec::new())
}

#[inline(always)]
fn m128(w: usize) -> u128 {
    if w >= 128 { u128::MAX } else { (1u128 << w) - 1 }
}

#[inline(always)]
fn sext(u: u128, w: usize) -> i128 {
    if w >= 128 { u as i128 } else if (u >> (w - 1)) & 1 == 1 { (u | !m128(w)) as i128 } else { u as i128 }
}

#[inline(always)]
fn ord(big: bool) -> Byteorder { if big { BIG } else { LITTLE } }

/// Three fields. `split` chooses how the record is assembled, modelling one or several emits:
///   0: (f0 ++ f1) ++ f2      (three emits: output' = output.append(field))
///   1: f0 ++ (f1 ++ f2)      (first emit f0, second emit a pre-concatenated >bitstr of f1,f2)
///   2: as 0 but the tail fields are cut out of a larger buffer first (shared, unaligned operands)
/// Later fields start at bit alignments w0 % 8 and (w0 + w1) % 8.
#[inline(always)]
#[allow(clippy::too_many_arguments)]
pub fn op_record3<S: Src>(
    s: &mut S,
    w0: usize, b0: bool, s0: bool,
    w1: usize, b1: bool, s1: bool,
    w2: usize, b2: bool, s2: bool,
    split: usize,
) {
    let v0 = s.i128();
    let v1 = s.i128();
    let v2 = s.i128();
    let f0 = Bitstr::from_int(v0, w0, ord(b0));
    let f1 = Bitstr::from_int(v1, w1, ord(b1));
    let f2 = Bitstr::from_int(v2, w2, ord(b2));
    let mut rec = if split == 1 {
        let tail = f1.append(&f2);
        f0.append(&tail)
    } else {
        f0.append(&f1).append(&f2)
    };
    assert!(rec.len() == w0 + w1 + w2);
    let g0 = rec.read(w0).unwrap();
    let g1 = rec.read(w1).unwrap();
    let g2 = rec.read(w2).unwrap();
    assert!(rec.len() == 0);
    if s0 { assert!(g0.to_int(ord(b0)) == sext((v0 as u128) & m128(w0), w0)); } else { assert!(g0.to_uint(ord(b0)) == (v0 as u128) & m128(w0)); }
    if s1 { assert!(g1.to_int(ord(b1)) == sext((v1 as u128) & m128(w1), w1)); } else { assert!(g1.to_uint(ord(b1)) == (v1 as u128) & m128(w1)); }
    if s2 { assert!(g2.to_int(ord(b2)) == sext((v2 as u128) & m128(w2), w2)); } else { assert!(g2.to_uint(ord(b2)) == (v2 as u128) & m128(w2)); }
}

/// int, float, int: the float field lands at bit alignment w0 % 8.
#[inline(always)]
pub fn op_record_float<S: Src>(s: &mut S, w0: usize, b0: bool, fbig: bool, f32_: bool, w2: usize, b2: bool) {
    let v0 = s.i128();
    let bits = s.u64();
    let v2 = s.i128();
    let f0 = Bitstr::from_int(v0, w0, ord(b0));
    let f1 = if f32_ { Bitstr::from_f32(f32::from_bits(bits as u32), ord(fbig)) } else { Bitstr::from_f64(f64::from_bits(bits), ord(fbig)) };
    let f2 = Bitstr::from_int(v2, w2, ord(b2));
    let mut rec = f0.append(&f1).append(&f2);
    let fw = if f32_ { 32 } else { 64 };
    assert!(rec.len() == w0 + fw + w2);
    let g0 = rec.read(w0).unwrap();
    let g1 = rec.read(fw).unwrap();
    let g2 = rec.read(w2).unwrap();
    assert!(rec.len() == 0);
    assert!(g0.to_uint(ord(b0)) == (v0 as u128) & m128(w0));
    if f32_ {
        assert!(g1.to_f32(ord(fbig)).to_bits() == bits as u32);
    } else {
        assert!(g1.to_f64(ord(fbig)).to_bits() == bits);
    }
    assert!(g2.to_int(ord(b2)) == sext((v2 as u128) & m128(w2), w2));
}

/// raw bit-strings and byte lists between integer fields (the other element kinds of >bitstr)
#[inline(always)]
pub fn op_record_raw<S: Src>(s: &mut S, w0: usize, b0: bool, ra: usize, rb: usize, w2: usize, b2: bool) {
    let v0 = s.i128();
    let r0 = s.u8();
    let r1 = s.u8();
    let byte = s.u8();
    let v2 = s.i128();
    let raw = Bitstr::from(vec![r0, r1]).substr(ra, rb).unwrap();
    let rawm = ((((r0 as u64) << 8) | r1 as u64) >> (16 - rb)) & ((1u64 << (rb - ra)) - 1);
    let f0 = Bitstr::from_int(v0, w0, ord(b0));
    let f2 = Bitstr::from_int(v2, w2, ord(b2));
    let mut rec = f0.append(&raw).append(&Bitstr::from(vec![byte])).append(&f2);
    assert!(rec.len() == w0 + (rb - ra) + 8 + w2);
    let g0 = rec.read(w0).unwrap();
    let gr = rec.read(rb - ra).unwrap();
    let gb = rec.read(8).unwrap();
    let g2 = rec.read(w2).unwrap();
    assert!(rec.len() == 0);
    assert!(g0.to_uint(ord(b0)) == (v0 as u128) & m128(w0));
    if rb > ra { assert!(gr.to_uint(BIG) == rawm as u128); }
    assert!(gb.to_uint(BIG) == byte as u128);
    assert!(g2.to_uint(ord(b2)) == (v2 as u128) & m128(w2));
}

/// Two fields glued by a single append (receiver = the exact, uniquely owned buffer from_int built),
/// parsed back with read + decode: field 2 starts at bit alignment w0 % 8.
#[inline(always)]
pub fn op_record2<S: Src>(s: &mut S, w0: usize, b0: bool, s0: bool, w1: usize, b1: bool, s1: bool) {
    let v0 = s.i128();
    let v1 = s.i128();
    let f0 = Bitstr::from_int(v0, w0, ord(b0));
    let f1 = Bitstr::from_int(v1, w1, ord(b1));
    let mut rec = f0.append(&f1);
    assert!(rec.len() == w0 + w1);
    let g0 = rec.read(w0).unwrap();
    let g1 = rec.read(w1).unwrap();
    assert!(rec.len() == 0);
    if s0 { assert!(g0.to_int(ord(b0)) == sext((v0 as u128) & m128(w0), w0)); } else { assert!(g0.to_uint(ord(b0)) == (v0 as u128) & m128(w0)); }
    if s1 { assert!(g1.to_int(ord(b1)) == sext((v1 as u128) & m128(w1), w1)); } else { assert!(g1.to_uint(ord(b1)) == (v1 as u128) & m128(w1)); }
}
