//! C18: the codec calls base_ext.rs makes, on short symbolic byte strings.
use crate::src::Src;

#[inline(always)]
fn sym<S: Src>(s: &mut S, n: usize) -> Vec<u8> {
    let mut v = Vec::with_capacity(n);
    let mut i = 0;
    while i < n {
        v.push(s.u8());
        i += 1;
    }
    v
}

#[inline(always)]
fn same(a: &[u8], b: &[u8]) -> bool {
    if a.len() != b.len() {
        return false;
    }
    let mut i = 0;
    while i < a.len() {
        if a[i] != b[i] {
            return false;
        }
        i += 1;
    }
    true
}

#[inline(always)]
pub fn op_base32_rt<S: Src>(s: &mut S, n: usize, crockford: bool) {
    let b = sym(s, n);
    let alpha = if crockford { base32::Alphabet::Crockford } else { base32::Alphabet::RFC4648 { padding: true } };
    let t = base32::encode(alpha, &b);
    let alpha2 = if crockford { base32::Alphabet::Crockford } else { base32::Alphabet::RFC4648 { padding: true } };
    match base32::decode(alpha2, &t) {
        Some(d) => assert!(same(&d, &b)),
        None => { assert!(false); }
    }
}

#[inline(always)]
pub fn op_base64_rt<S: Src>(s: &mut S, n: usize) {
    use base64::{engine::general_purpose, Engine as _};
    let b = sym(s, n);
    let t = general_purpose::STANDARD.encode(&b);
    match general_purpose::STANDARD.decode(&t) {
        Ok(d) => assert!(same(&d, &b)),
        Err(_) => { assert!(false); }
    }
}

#[inline(always)]
pub fn op_z85_rt<S: Src>(s: &mut S, n: usize) {
    let b = sym(s, n);
    let t = z85::encode(&b);
    match z85::decode(&t) {
        Ok(d) => assert!(same(&d, &b)),
        Err(_) => { assert!(false); }
    }
}
