//! C05: number <-> bits codecs against a reference decoder defined on the bit sequence.
//! width / byte order / bit offset are literals per instance; values and buffer bytes symbolic.

use crate::src::Src;
use xeh::bitstr::{Bitstr, Byteorder, BIG, LITTLE};

#[inline(always)]
fn mask128(w: usize) -> u128 {
    if w >= 128 {
        u128::MAX
    } else {
        (1u128 << w) - 1
    }
}

#[inline(always)]
fn sign_extend(u: u128, w: usize) -> i128 {
    if w >= 128 {
        u as i128
    } else if (u >> (w - 1)) & 1 == 1 {
        (u | !mask128(w)) as i128
    } else {
        u as i128
    }
}

/// Reference decoder on a plain bit sequence: bit i of the field is bit (off+i) of `bytes`, MSB first.
/// BIG: first bit is the most significant. LITTLE: the sequence is a series of 8-bit groups of the
/// *value*, least significant group first, each group MSB first; a final partial group of n bits
/// holds the n most significant value bits (this is the layout `from_int` emits).
#[inline(always)]
fn ref_decode(bytes: &[u8], off: usize, w: usize, big: bool) -> u128 {
    let mut acc: u128 = 0;
    let mut i = 0;
    while i < w {
        let pos = off + i;
        let bit = ((bytes[pos / 8] >> (7 - (pos % 8))) & 1) as u128;
        if big {
            acc |= bit << (w - 1 - i);
        } else {
            let j = i / 8;
            let n = if w - 8 * j < 8 { w - 8 * j } else { 8 };
            let p = i % 8;
            acc |= bit << (8 * j + (n - 1 - p));
        }
        i += 1;
    }
    acc
}

#[inline(always)]
fn order(big: bool) -> Byteorder {
    if big {
        BIG
    } else {
        LITTLE
    }
}

/// pack then unpack: value reduced to the width; byte-multiple widths match to_le/be_bytes.
#[inline(always)]
pub fn op_int_roundtrip<S: Src>(s: &mut S, w: usize, big: bool) {
    let v = s.i128();
    let o = order(big);
    let bs = Bitstr::from_int(v, w, o);
    assert!(bs.len() == w);
    let u = bs.to_uint(o);
    assert!(u == (v as u128) & mask128(w));
    let i = bs.to_int(o);
    assert!(i == sign_extend((v as u128) & mask128(w), w));
    if w % 8 == 0 {
        let bytes = bs.to_bytes().unwrap();
        assert!(bytes.len() == w / 8);
        let le = v.to_le_bytes();
        let be = v.to_be_bytes();
        let mut k = 0;
        while k < w / 8 {
            if big {
                assert!(bytes[k] == be[16 - w / 8 + k]);
            } else {
                assert!(bytes[k] == le[k]);
            }
            k += 1;
        }
    }
}

/// decode a field cut at bit offset `off` out of a symbolic buffer: a function of the bits alone.
#[inline(always)]
pub fn op_int_decode_at<S: Src>(s: &mut S, w: usize, big: bool, off: usize, drop_parent: bool) {
    let nb = (off + w + 7) / 8;
    let mut bytes = Vec::with_capacity(nb);
    let mut k = 0;
    while k < nb {
        bytes.push(s.u8());
        k += 1;
    }
    let want = ref_decode(&bytes, off, w, big);
    let parent = Bitstr::from(bytes);
    let f = parent.substr(off, off + w).unwrap();
    if drop_parent {
        drop(parent);
        let o = order(big);
        assert!(f.to_uint(o) == want);
        assert!(f.to_int(o) == sign_extend(want, w));
    } else {
        let o = order(big);
        assert!(f.to_uint(o) == want);
        assert!(f.to_int(o) == sign_extend(want, w));
        // the same bits re-based at offset 0 decode to the same number
        let d = f.clone().detach();
        assert!(d.to_uint(o) == want);
        drop(parent);
    }
}

/// encode layout: from_int's bit sequence decodes (by the reference decoder) to the value.
#[inline(always)]
pub fn op_int_encode_layout<S: Src>(s: &mut S, w: usize, big: bool) {
    let v = s.i128();
    let bs = Bitstr::from_int(v, w, order(big));
    let bytes = bs.to_bytes_with_padding();
    // to_bytes_with_padding right-aligns a trailing partial chunk; rebuild the left-aligned sequence
    let mut seq = Vec::with_capacity(bytes.len());
    let mut k = 0;
    while k < bytes.len() {
        let last_partial = k + 1 == bytes.len() && w % 8 != 0;
        if last_partial {
            seq.push(bytes[k] << (8 - (w % 8)));
        } else {
            seq.push(bytes[k]);
        }
        k += 1;
    }
    assert!(ref_decode(&seq, 0, w, big) == (v as u128) & mask128(w));
}

#[inline(always)]
pub fn op_f64<S: Src>(s: &mut S, big: bool, off: usize) {
    let o = order(big);
    // encode: bit-exact platform layout
    let x = f64::from_bits(s.u64());
    let e = Bitstr::from_f64(x, o);
    assert!(e.len() == 64);
    let eb = e.to_bytes().unwrap();
    let want = if big { x.to_bits().to_be_bytes() } else { x.to_bits().to_le_bytes() };
    let mut k = 0;
    while k < 8 {
        assert!(eb[k] == want[k]);
        k += 1;
    }
    assert!(e.to_f64(o).to_bits() == x.to_bits());
    // decode at an arbitrary bit offset
    let nb = (off + 64 + 7) / 8;
    let mut bytes = Vec::with_capacity(nb);
    let mut k = 0;
    while k < nb {
        bytes.push(s.u8());
        k += 1;
    }
    let raw = ref_decode(&bytes, off, 64, true) as u64; // the 8 sequence bytes, first byte most significant
    let parent = Bitstr::from(bytes);
    let f = parent.substr(off, off + 64).unwrap();
    let got = f.to_f64(o).to_bits();
    let exp = if big { raw } else { raw.swap_bytes() };
    assert!(got == exp);
}

#[inline(always)]
pub fn op_f32<S: Src>(s: &mut S, big: bool, off: usize) {
    let o = order(big);
    let x = f32::from_bits(s.u64() as u32);
    let e = Bitstr::from_f32(x, o);
    assert!(e.len() == 32);
    let eb = e.to_bytes().unwrap();
    let want = if big { x.to_bits().to_be_bytes() } else { x.to_bits().to_le_bytes() };
    let mut k = 0;
    while k < 4 {
        assert!(eb[k] == want[k]);
        k += 1;
    }
    assert!(e.to_f32(o).to_bits() == x.to_bits());
    let nb = (off + 32 + 7) / 8;
    let mut bytes = Vec::with_capacity(nb);
    let mut k = 0;
    while k < nb {
        bytes.push(s.u8());
        k += 1;
    }
    let raw = ref_decode(&bytes, off, 32, true) as u32;
    let parent = Bitstr::from(bytes);
    let f = parent.substr(off, off + 32).unwrap();
    let got = f.to_f32(o).to_bits();
    let exp = if big { raw } else { raw.swap_bytes() };
    assert!(got == exp);
}

/// to_int / to_uint on every short width including 0 must not panic (C08 overlap).
#[inline(always)]
pub fn op_int_width0<S: Src>(s: &mut S, big: bool) {
    let b = s.u8();
    let parent = Bitstr::from(vec![b]);
    let f = parent.substr(3, 3).unwrap();
    let o = order(big);
    assert!(f.to_uint(o) == 0);
    assert!(f.to_int(o) == 0);
}
