//! Value source shared by the Kani proof driver and the native replayer.
//! Every `any` is one primitive, so a Kani concrete-playback vector maps 1:1.

pub trait Src {
    fn u8(&mut self) -> u8;
    fn u64(&mut self) -> u64;
    fn u128(&mut self) -> u128;
    fn bool(&mut self) -> bool;
    fn assume(&mut self, c: bool);
    fn usize(&mut self) -> usize {
        self.u64() as usize
    }
    fn isize(&mut self) -> isize {
        self.u64() as isize
    }
    fn i128(&mut self) -> i128 {
        self.u128() as i128
    }
}

#[cfg(kani)]
pub struct KaniSrc;

#[cfg(kani)]
impl Src for KaniSrc {
    fn u8(&mut self) -> u8 {
        kani::any()
    }
    fn u64(&mut self) -> u64 {
        kani::any()
    }
    fn u128(&mut self) -> u128 {
        kani::any()
    }
    fn bool(&mut self) -> bool {
        kani::any()
    }
    fn assume(&mut self, c: bool) {
        kani::assume(c)
    }
}

/// Native source: pops primitives (little-endian) from a list of byte vectors.
pub struct VecSrc {
    pub items: Vec<Vec<u8>>,
    pub pos: usize,
    pub exhausted: bool,
}

impl VecSrc {
    pub fn new(items: Vec<Vec<u8>>) -> Self {
        VecSrc { items, pos: 0, exhausted: false }
    }
    fn take(&mut self, n: usize) -> Vec<u8> {
        let mut v = if self.pos < self.items.len() {
            self.items[self.pos].clone()
        } else {
            self.exhausted = true;
            Vec::new()
        };
        self.pos += 1;
        v.resize(n, 0);
        v
    }
}

pub struct AssumeViolated;

impl Src for VecSrc {
    fn u8(&mut self) -> u8 {
        self.take(1)[0]
    }
    fn u64(&mut self) -> u64 {
        let v = self.take(8);
        let mut a = [0u8; 8];
        a.copy_from_slice(&v);
        u64::from_le_bytes(a)
    }
    fn u128(&mut self) -> u128 {
        let v = self.take(16);
        let mut a = [0u8; 16];
        a.copy_from_slice(&v);
        u128::from_le_bytes(a)
    }
    fn bool(&mut self) -> bool {
        self.take(1)[0] != 0
    }
    fn assume(&mut self, c: bool) {
        if !c {
            std::panic::panic_any(AssumeViolated);
        }
    }
}
