//! C03-L1: buffer isolation. Two values alias one backing buffer the way clones of an interpreter
//! share bit-strings; mutate through one, the other must keep every bit.
use crate::bitmodel::*;
use crate::src::Src;
use xeh::bitstr::Bitstr;

pub const OP_INVERT: u8 = 0;
pub const OP_APPEND: u8 = 1;
pub const OP_INSERT: u8 = 2;
pub const OP_DETACH_INVERT: u8 = 3;
pub const OP_APPEND_THEN_INVERT: u8 = 4;
pub const OP_READ_INVERT: u8 = 5;

/// x = bits [a,b), y = bits [a2,b2) of the same l-byte buffer (y may be the same range = a clone,
/// the whole buffer = the parent, or any overlapping/adjacent sibling). `stat`: borrowed buffer.
/// `keep_parent`: a third alias stays alive. The op consumes x (or a value derived from x).
#[inline(always)]
#[allow(clippy::too_many_arguments)]
pub fn op_isolation<S: Src>(
    s: &mut S, l: usize, a: usize, b: usize, a2: usize, b2: usize,
    stat: bool, keep_parent: bool, op: u8, tl: usize, ta: usize, tb: usize,
) {
    let r = mk(s, l, 0, 8 * l, if stat { STATIC_SHARED } else { SHARED });
    let parent = r.keep.unwrap();
    drop(r.v);
    let buf = r.buf;
    let x = parent.substr(a, b).unwrap();
    let y = parent.substr(a2, b2).unwrap();
    let ym = (buf >> (8 * l - b2)) & mask(b2 - a2);
    let xm = (buf >> (8 * l - b)) & mask(b - a);
    let xl = b - a;
    let t = mk(s, tl, ta, tb, SHARED);
    let parent = if keep_parent { Some(parent) } else { drop(parent); None };
    let out: Bitstr = match op {
        OP_INVERT => {
            let r = x.invert();
            check_val(&r, (!xm) & mask(xl), xl);
            r
        }
        OP_APPEND => {
            let r = x.append(&t.v);
            check_val(&r, (xm << t.len) | t.model, xl + t.len);
            r
        }
        OP_INSERT => {
            let k = xl / 2;
            let r = x.insert(k, &t.v).unwrap();
            let want = ((((xm >> (xl - k)) << t.len) | t.model) << (xl - k)) | (xm & mask(xl - k));
            check_val(&r, want, xl + t.len);
            r
        }
        OP_DETACH_INVERT => {
            let r = x.detach().invert();
            check_val(&r, (!xm) & mask(xl), xl);
            r
        }
        OP_APPEND_THEN_INVERT => {
            // second mutation happens on a now uniquely-owned buffer
            let r = x.append(&t.v).invert();
            check_val(&r, (!((xm << t.len) | t.model)) & mask(xl + t.len), xl + t.len);
            r
        }
        _ => {
            let mut x = x;
            let k = xl / 2;
            let h = x.read(k).unwrap();
            let r = h.invert();
            check_val(&r, (!(xm >> (xl - k))) & mask(k), k);
            check_val(&x, xm & mask(xl - k), xl - k);
            r
        }
    };
    // the alias still shows exactly its bits, through both observers
    check_val(&y, ym, b2 - a2);
    check_val(&t.v, t.model, t.len);
    if let Some(p) = &parent {
        check_val(p, buf, 8 * l);
    }
    // and mutating the alias afterwards does not disturb the first result either
    let (ob, on) = obs_bits(&out);
    let y2 = y.invert();
    check_val(&y2, (!ym) & mask(b2 - a2), b2 - a2);
    let (ob2, on2) = obs_bits(&out);
    assert!(ob == ob2 && on == on2);
    if let Some(p) = &parent {
        check_val(p, buf, 8 * l);
    }
}
