//! Reference bit-sequence model and representation builders for `xeh::bitstr::Bitstr`.
//! A value is modelled as (bits: u64 right-aligned, len). Everything is built through the
//! public API only.

use crate::src::Src;
use xeh::bitstr::Bitstr;

#[inline(always)]
pub fn mask(n: usize) -> u64 {
    if n >= 64 {
        u64::MAX
    } else {
        (1u64 << n) - 1
    }
}

/// A bit-string under test plus what keeps its ownership shape alive and its model.
pub struct Rep {
    pub v: Bitstr,
    pub keep: Option<Bitstr>,
    /// model of the whole backing buffer (l bytes, MSB first) — for the parent check
    pub buf: u64,
    pub l: usize,
    pub model: u64,
    pub len: usize,
}

pub const SHARED: u8 = 0; // sliced, parent alive (Rc count 2, owned)
pub const UNIQUE: u8 = 1; // sliced, parent dropped (Rc count 1, owned, slack possible)
pub const STATIC_SHARED: u8 = 2; // borrowed 'static buffer, parent alive
pub const STATIC_UNIQUE: u8 = 3; // borrowed 'static buffer, parent dropped
pub const INVERTED: u8 = 4; // result of invert() on a unique slice of the complement
pub const APPENDED: u8 = 5; // result of a previous append (two halves glued)

static mut SBUF: [u8; 4] = [0; 4];

/// A 'static borrowed buffer holding the given bytes. One static cell is reused: at most one
/// STATIC_* value is alive at a time in every op (second/third operands are never static).
#[inline(always)]
fn leak_static(bytes: Vec<u8>) -> &'static [u8] {
    unsafe {
        let p = core::ptr::addr_of_mut!(SBUF) as *mut u8;
        let mut i = 0;
        while i < bytes.len() {
            *p.add(i) = bytes[i];
            i += 1;
        }
        core::slice::from_raw_parts(p as *const u8, bytes.len())
    }
}

#[inline(always)]
fn sym_bytes<S: Src>(s: &mut S, l: usize) -> (Vec<u8>, u64) {
    let mut v = Vec::with_capacity(l);
    let mut buf = 0u64;
    let mut i = 0;
    while i < l {
        let b = s.u8();
        v.push(b);
        buf = (buf << 8) | (b as u64);
        i += 1;
    }
    (v, buf)
}

/// Build a value whose bits are buffer bits [a, b) of an l-byte symbolic buffer in the
/// requested ownership shape. l, a, b, shape are literals at every call site.
#[inline(always)]
pub fn mk<S: Src>(s: &mut S, l: usize, a: usize, b: usize, shape: u8) -> Rep {
    let (bytes, buf) = sym_bytes(s, l);
    let len = b - a;
    let model = (buf >> (8 * l - b)) & mask(len);
    match shape {
        SHARED => {
            let parent = Bitstr::from(bytes);
            let v = parent.substr(a, b).unwrap();
            Rep { v, keep: Some(parent), buf, l, model, len }
        }
        UNIQUE => {
            let parent = Bitstr::from(bytes);
            let v = parent.substr(a, b).unwrap();
            drop(parent);
            Rep { v, keep: None, buf, l, model, len }
        }
        STATIC_SHARED => {
            let st: &'static [u8] = leak_static(bytes);
            let parent = Bitstr::from(st);
            let v = parent.substr(a, b).unwrap();
            Rep { v, keep: Some(parent), buf, l, model, len }
        }
        STATIC_UNIQUE => {
            let st: &'static [u8] = leak_static(bytes);
            let parent = Bitstr::from(st);
            let v = parent.substr(a, b).unwrap();
            drop(parent);
            Rep { v, keep: None, buf, l, model, len }
        }
        INVERTED => {
            let parent = Bitstr::from(bytes);
            let v0 = parent.substr(a, b).unwrap();
            drop(parent);
            let v = v0.invert();
            let model = (!model) & mask(len);
            Rep { v, keep: None, buf, l, model, len }
        }
        _ => {
            // APPENDED: glue [a, m) and [m, b) of two independent views of the buffer
            let m = a + (b - a) / 2;
            let parent = Bitstr::from(bytes);
            let left = parent.substr(a, m).unwrap();
            let right = parent.substr(m, b).unwrap();
            let v = left.append(&right);
            Rep { v, keep: Some(parent), buf, l, model, len }
        }
    }
}

#[inline(always)]
pub fn obs_bits(x: &Bitstr) -> (u64, usize) {
    let mut acc = 0u64;
    let mut n = 0usize;
    for b in x.bits() {
        acc = (acc << 1) | (b as u64);
        n += 1;
    }
    (acc, n)
}

#[inline(always)]
pub fn obs_iter8(x: &Bitstr) -> (u64, usize) {
    let mut acc = 0u64;
    let mut n = 0usize;
    for (v, k) in x.iter8() {
        acc = (acc << k) | (v as u64);
        n += k as usize;
    }
    (acc, n)
}

/// The model's chunk i (8 bits, last one shorter and right-aligned), as iter8 yields it.
#[inline(always)]
pub fn model_chunk(model: u64, len: usize, i: usize) -> u8 {
    let lo = 8 * i;
    let hi = if lo + 8 < len { lo + 8 } else { len };
    ((model >> (len - hi)) & mask(hi - lo)) as u8
}

/// Full observation of a value against the model through independent observers.
#[inline(always)]
pub fn check_val(x: &Bitstr, model: u64, len: usize) {
    assert!(x.len() == len);
    assert!(x.end() - x.start() == len);
    let (b, n) = obs_bits(x);
    assert!(n == len);
    assert!(b == model);
    let (b8, n8) = obs_iter8(x);
    assert!(n8 == len);
    assert!(b8 == model);
}

#[inline(always)]
pub fn check_val_bytes(x: &Bitstr, model: u64, len: usize) {
    let p = x.to_bytes_with_padding();
    let nchunks = (len + 7) / 8;
    assert!(p.len() == nchunks);
    let mut i = 0;
    while i < nchunks {
        assert!(p[i] == model_chunk(model, len, i));
        i += 1;
    }
    assert!(x.is_bytestr() == (len % 8 == 0));
    match x.to_bytes() {
        Some(v) => {
            assert!(len % 8 == 0);
            assert!(v.len() == len / 8);
            let mut i = 0;
            while i < v.len() {
                assert!(v[i] == model_chunk(model, len, i));
                i += 1;
            }
        }
        None => { assert!(len % 8 != 0); }
    }
    match x.bytestr() {
        Some(v) => {
            assert!(len % 8 == 0);
            assert!(v.len() == len / 8);
            let mut i = 0;
            while i < v.len() {
                assert!(v[i] == model_chunk(model, len, i));
                i += 1;
            }
        }
        None => { assert!(len % 8 != 0); }
    }
    if let Some(v) = x.slice() {
        assert!(len % 8 == 0);
        assert!(v.len() == len / 8);
        let mut i = 0;
        while i < v.len() {
            assert!(v[i] == model_chunk(model, len, i));
            i += 1;
        }
    }
}

/// The still-alive parent (if any) must show exactly its original buffer bits.
#[inline(always)]
pub fn check_parent(r: &Rep) {
    if let Some(p) = &r.keep {
        assert!(p.len() == 8 * r.l);
        let (b, n) = obs_bits(p);
        assert!(n == 8 * r.l);
        assert!(b == r.buf);
    }
}
