"""Turn solver models into scenarios for the native replayer (lines + expectations)."""
import z3
from e2.prestate import CELL_VARIANTS


def sval(m, term, default=0):
    v = m.eval(term, model_completion=True)
    if z3.is_bv_value(v):
        return v.as_long()
    return default


def signed(v, bits):
    return v - (1 << bits) if v >= 1 << (bits - 1) else v


def cell_push_line(m, name, ty="cell::Cell"):
    """`push ...` line for the symbolic cell `name` under model m (untagged cells)."""
    d = sval(m, z3.BitVec(name + ".discr", 64))
    var = CELL_VARIANTS[d] if 0 <= d < len(CELL_VARIANTS) else "Nil"
    if var == "Int":
        return "push int %d" % signed(sval(m, z3.BitVec(name + ".Int.0", 128)), 128)
    if var == "Real":
        bits = sval(m, z3.fpToIEEEBV(z3.FP(name + ".Real.0", z3.Float64())))
        return "push real_bits 0x%016x" % bits
    if var == "Flag":
        b = m.eval(z3.Bool(name + ".Flag.0"), model_completion=True)
        return "push flag %s" % ("true" if z3.is_true(b) else "false")
    if var == "WithTag":
        # the wrapped value: Rc<WithTag> -> .value (field 1); wrappers never nest (representation invariant)
        inner = cell_push_line(m, name + ".WithTag.0.*.1")
        return inner.replace("push ", "push tagged ", 1) if not inner.startswith("push tagged") else "push tagged int 1"
    return {"Nil": "push nil", "Str": "push str s", "Vector": "push vec", "Map": "push map", "Fun": "push fun",
            "Bitstr": "push bitstr 5a 0 8", "AnyRc": "push any", "WithTag": "push tagged int 1"}[var]


def real_expect(m, term):
    v = m.eval(term, model_completion=True)
    if z3.is_fp_value(v) and v.isNaN():
        return ("top_real_nan",)
    bits = sval(m, z3.fpToIEEEBV(term))
    return ("top_real", "0x%016x" % bits)
