"""mirsym: a path-forking symbolic executor over rustc MIR text, discharging to z3.

Sound by refusal: any construct, type or callee it does not know raises Unsupported, which
aborts the lemma being checked (reported, never guessed).
"""
import copy, re, time
import z3
from e2.values import *
from e2.mirparse import parse_mir, split_top
from e2.summaries import DeadPath, Multi


class Fork(Exception):
    """Re-execute the current statement once per alternative; each alternative adds a constraint
    and optionally performs a state edit (given as a picklable description)."""

    def __init__(self, alts):
        self.alts = alts      # [(z3 cond or None, edit or None, note)]


class Panic(Exception):
    def __init__(self, kind, msg):
        self.kind, self.msg = kind, msg


class Frame:
    def __init__(self, fn, dest=None, ret_bb=None):
        self.fn = fn
        self.locals = {}
        self.bb = "bb0"
        self.idx = 0
        self.dest = dest        # Ref into caller memory (or None)
        self.ret_bb = ret_bb


class PathState:
    def __init__(self):
        self.frames = []
        self.pc = []
        self.notes = []
        self.ghost = {}
        self.steps = 0
        self.visits = {}

    def fork(self):
        return copy.deepcopy(self)


class Outcome:
    def __init__(self, kind, st, value=None, msg=None, where=None):
        self.kind, self.st, self.value, self.msg, self.where = kind, st, value, msg, where

    def __repr__(self):
        return "Outcome(%s %s %s)" % (self.kind, self.msg or "", self.where or "")


STD_ENUM_DISCR = {"Ordering": {"Less": -1, "Equal": 0, "Greater": 1}}


class Executor:
    def __init__(self, funcs, defs, overflow_checks=True, loop_bound=8, step_limit=200000, timeout_ms=60000):
        self.funcs = funcs
        self.defs = defs
        self.tc = TypeCtx(defs)
        self.overflow_checks = overflow_checks
        self.loop_bound = loop_bound
        self.step_limit = step_limit
        self.solver = z3.Solver()
        self.solver.set("timeout", timeout_ms)
        self.queries = 0
        self.solver_time = 0.0
        self.summaries_used = set()
        self.functions_executed = set()
        self.fresh = 0
        self.overrides = {}      # callee-name regex -> python function (per-lemma stubs)
        self.path_budget = None
        self.deadline = None
        from e2 import summaries
        self.summ = summaries.Summaries(self)
        self._index_functions()

    # ------------------------------------------------------------------ function lookup
    def _index_functions(self):
        self.by_last = {}
        self.const_index = {}
        for name in self.funcs:
            if name.startswith("const ") and "promoted[" not in name:
                self.const_index.setdefault(name.split("::")[-1].replace("const ", ""), []).append(name)
        for name, f in self.funcs.items():
            if name.startswith(("const ", "promoted[", "?")):
                continue
            last = re.sub(r"::\{closure#\d+\}", lambda m: m.group(0), name)
            seg = self._last_seg(name)
            self.by_last.setdefault(seg, []).append(f)

    @staticmethod
    def _last_seg(name):
        # last path segment, keeping closure suffixes attached to their parent fn name
        m = re.search(r"([A-Za-z_][A-Za-z0-9_]*(?:::\{closure#\d+\})*)$", name)
        return m.group(1) if m else name

    def resolve(self, callee, argvals):
        """callee text from a call terminator / fn item -> Function or None (external)."""
        c = callee.strip()
        if c in self.funcs:
            return self.funcs[c]
        c = strip_generics(c) if "::<" in c and not c.startswith("<") else c
        if c in self.funcs:
            return self.funcs[c]
        seg = self._last_seg(c)
        cands = self.by_last.get(seg, [])
        if not cands:
            return None
        # trait-qualified:  <T as Trait>::m   -> impl method whose first param is T / &T / &mut T
        m = re.match(r"^<(.*) as (.*)>::([A-Za-z_0-9]+)$", c)
        self_ty = None
        if m:
            self_ty = strip_ty(m.group(1))
            trait = m.group(2)
            # only crate types can have crate impls we should execute
            k, info = self.tc.kind(self_ty)
            bn = base_name(split_generic(self_ty)[0])
            if bn not in self.defs.module and not self_ty.startswith("{closure@"):
                return None
        else:
            # Type::method or module::function
            pre = c[: len(c) - len(seg)].rstrip(":")
            if pre:
                head = base_name(split_generic(pre)[0]) if not pre.endswith(">") or "<" in pre else pre
                # external type (Vec, Option, i128 ...) => not a crate function
                first = pre.split("::")[0]
                if first in ("Vec", "Option", "Result", "std", "core", "alloc", "rpds", "arcstr", "String", "Rc", "Box",
                             "memchr", "base32", "base64", "z85", "getrandom", "char", "str", "f64", "f32", "u8", "u32",
                             "u64", "u128", "usize", "i128", "isize", "i64", "i32", "Cow", "Iterator", "IntoIterator",
                             "RedBlackTreeMap", "Vector", "ArcStr", "Substr", "Rev", "slice", "Range"):
                    return None
        good = []
        for f in cands:
            if f.name == c:
                return f
            if len(f.params) != len(argvals):
                continue
            if self_ty is not None:
                if not f.params:
                    if strip_ty(f.ret) == self_ty or strip_ty(f.ret).endswith("::" + self_ty) or self_ty.endswith("::" + strip_ty(f.ret)):
                        good.append(f)
                    continue
                p0 = strip_ty(f.params[0][1])
                p0b = p0[5:] if p0.startswith("&mut ") else p0[1:] if p0.startswith("&") else p0
                if m and m.group(3) == "from":
                    # From::from has no receiver: the impl is identified by (Self = return type, T = parameter type)
                    tm = re.match(r"^From<(.*)>$", trait.strip())
                    if strip_ty(f.ret) != self_ty or (tm and strip_ty(f.params[0][1]) != strip_ty(tm.group(1))):
                        continue
                    good.append(f)
                    continue
                if strip_ty(p0b) != self_ty and strip_ty(p0) != self_ty:
                    # associated fn without self (e.g. From::from): match on impl + return type instead
                    if not (m and m.group(3) in ("from", "default") and strip_ty(f.ret) == self_ty):
                        continue
                    if m.group(3) == "from":
                        tm = re.match(r"^From<(.*)>$", trait.strip())
                        if tm and strip_ty(f.params[0][1]) != strip_ty(tm.group(1)):
                            continue
            else:
                pre = c[: len(c) - len(seg)].rstrip(":")
                if pre:
                    tyname = base_name(split_generic(pre)[0])
                    mod = self.defs.module.get(tyname)
                    if mod and not (f.name.startswith(mod + "::") or "::" not in f.name.replace("::{closure", "")):
                        # method of a crate type lives in that type's module (impl at src/<mod>.rs)
                        if ("src/%s.rs" % mod) not in f.name:
                            continue
                    if "<impl at" in f.name and mod and ("src/%s.rs" % mod) not in f.name:
                        continue
                    if pre in self.defs.module.values() or pre.split("::")[-1] in {v for v in self.defs.module.values()}:
                        # module-qualified free function
                        if not f.name.startswith(pre.split("::")[-1] + "::") and "::" in f.name and "<impl" not in f.name:
                            continue
            good.append(f)
        if len(good) == 1:
            return good[0]
        if not good:
            return None
        if self_ty is None and len(good) > 1:
            pre = c[: len(c) - len(seg)].rstrip(":")
            tyname = base_name(split_generic(pre)[0]) if pre else None
            if tyname:
                g2 = [f for f in good if f.params and base_name(split_generic(strip_ty(f.params[0][1]).lstrip("&").replace("mut ", "").strip())[0]) == tyname]
                if len(g2) == 1:
                    return g2[0]
                g3 = [f for f in good if base_name(split_generic(strip_ty(f.ret))[0]) == tyname]
                if len(g3) == 1:
                    return g3[0]
        # disambiguate by argument kinds (first param type vs value class)
        raise Unsupported("ambiguous callee %s: %s" % (callee, [g.name for g in good]))

    # ------------------------------------------------------------------ solver helpers
    def check(self, st, *extra):
        self.queries += 1
        t0 = time.time()
        cs = (st.pc if st is not None else []) + self.tc.assumptions + list(extra)
        r = self.solver.check(*cs)
        if r == z3.unknown:
            # one retry on a fresh solver with twice the time: a loaded machine (or a timer hiccup) must not turn a
            # decidable query into a refusal
            why = self.solver.reason_unknown()
            s2 = z3.Solver()
            s2.set("timeout", 120000)
            r = s2.check(*cs)
            self.retried = getattr(self, "retried", 0) + 1
            if r == z3.unknown:
                self.solver_time += time.time() - t0
                raise Unsupported("solver returned unknown: %s / %s" % (why, s2.reason_unknown()))
        self.solver_time += time.time() - t0
        return r == z3.sat

    def feasible(self, st, cond):
        c = z3.simplify(cond)
        if z3.is_true(c):
            return True
        if z3.is_false(c):
            return False
        return self.check(st, c)

    def entailed(self, st, cond):
        c = z3.simplify(cond)
        if z3.is_true(c):
            return True
        if z3.is_false(c):
            return not self.check(st) if False else False
        return not self.check(st, z3.Not(c))

    def concrete_int(self, st, term, candidates=None, what="value"):
        """Python int if the path condition pins `term`; otherwise Fork over feasible candidates."""
        t = z3.simplify(term)
        if z3.is_bv_value(t):
            return t.as_long()
        if candidates is None:
            raise Unsupported("symbolic %s with no candidate set: %s" % (what, t))
        feas = []
        for c in candidates:
            cv = z3.BitVecVal(c, t.size())
            if self.feasible(st, t == cv):
                feas.append(c)
        other = z3.And(*[t != z3.BitVecVal(c, t.size()) for c in candidates]) if candidates else z3.BoolVal(True)
        alts = [(t == z3.BitVecVal(c, t.size()), None, "%s==%d" % (what, c)) for c in feas]
        if self.feasible(st, other):
            alts.append((other, ("unsupported", "%s outside candidates %s: %s" % (what, candidates, t)), "other"))
        if len(alts) == 1 and alts[0][1] is None:
            return feas[0]
        raise Fork(alts)

    def fresh_name(self, base):
        self.fresh += 1
        return "%s!%d" % (base, self.fresh)

    # ------------------------------------------------------------------ memory
    def deref_chain(self, st, box, path):
        """Follow path from box; returns (container, key) for the final step or the value."""
        raise NotImplementedError

    def get_at(self, st, box, path):
        v = box.val
        for step in path:
            v = self.step_get(st, v, step)
        return v

    def step_get(self, st, v, step):
        k = step[0]
        if k == "f":
            _, idx, ty = step
            if isinstance(v, Struct):
                if idx not in v.fields:
                    if v.origin is None:
                        raise Unsupported("read of unset field %s of %s" % (idx, v.ty))
                    v.fields[idx] = mk_sym(self.tc, ty, "%s.%s" % (v.origin, idx))
                return v.fields[idx]
            if isinstance(v, Tuple):
                return v.items[idx]
            if isinstance(v, Enum):
                # field of a downcast payload is addressed via ('v', ..) first
                raise Unsupported("field of enum without downcast")
            if isinstance(v, Uninit):
                raise Unsupported("read of uninitialised memory")
            if isinstance(v, Opaque):
                raise Unsupported("field %s of opaque %s" % (idx, v.ty))
            if isinstance(v, FnVal) and v.env is not None and idx in v.env.fields:
                return v.env.fields[idx]
            if isinstance(v, Ref) and idx == 0:
                return v      # newtype-like wrappers around pointers (Unique/NonNull): transparent
            raise Unsupported("field %s of %r" % (idx, v))
        if k == "v":
            _, variant = step
            if not isinstance(v, Enum):
                raise Unsupported("downcast of non-enum %r" % (v,))
            if v.variant is None:
                if len(self.enum_variants(v.ty)) == 1:
                    v.variant = variant          # single-variant enum: nothing to inspect
                else:
                    raise Unsupported("downcast of an enum whose discriminant was never inspected (%s as %s)" % (v.origin, variant))
            if v.variant != variant:
                raise Unsupported("downcast to %s but value is %s" % (variant, v.variant))
            if v.payload is None:
                v.payload = Struct(v.ty + "::" + variant, {}, origin=(v.origin + "." + variant) if v.origin else None)
            return v.payload
        if k == "s":
            return v.slots[step[1]][1]
        if k == "e":
            _, j = step
            if not isinstance(v, Vec):
                raise Unsupported("element of non-vec")
            pos = j - v.low
            if pos < 0 or pos >= len(v.items):
                raise Unsupported("stale element reference %d into %r" % (j, v))
            return v.items[pos]
        raise Unsupported("path step %r" % (step,))

    def set_at(self, st, box, path, val):
        if not path:
            box.val = val
            return
        v = box.val
        for step in path[:-1]:
            v = self.step_get(st, v, step)
        step = path[-1]
        k = step[0]
        if k == "f":
            _, idx, ty = step
            if isinstance(v, Struct):
                v.fields[idx] = val
            elif isinstance(v, Tuple):
                v.items[idx] = val
            elif isinstance(v, Uninit):
                raise Unsupported("field write into uninit aggregate")
            else:
                raise Unsupported("field write into %r" % (v,))
        elif k == "s":
            v.slots[step[1]][1] = val
        elif k == "e":
            pos = step[1] - v.low
            if pos < 0 or pos >= len(v.items):
                raise Unsupported("stale element reference (write)")
            v.items[pos] = val
        elif k == "v":
            raise Unsupported("write to a downcast")
        else:
            raise Unsupported("set step %r" % (step,))

    def place_ref(self, st, fr, place):
        """Resolve a MIR place to Ref(box, path)."""
        k = place[0]
        if k == "local":
            b = fr.locals.get(place[1])
            if b is None:
                b = Box(Uninit(), name="%s.%s" % (self._last_seg(fr.fn.name), place[1]))
                fr.locals[place[1]] = b
            return Ref(b, ())
        if k == "deref":
            r = self.place_ref(st, fr, place[1])
            v = self.get_at(st, r.box, r.path)
            if isinstance(v, Ref):
                return Ref(v.box, v.path)
            raise Unsupported("deref of %r" % (v,))
        if k == "field":
            r = self.place_ref(st, fr, place[1])
            return Ref(r.box, r.path + (("f", place[2], place[3]),))
        if k == "downcast":
            r = self.place_ref(st, fr, place[1])
            return Ref(r.box, r.path + (("v", place[2]),))
        if k == "index":
            r = self.place_ref(st, fr, place[1])
            cont = self.get_at(st, r.box, r.path)
            idxv = self.read_local(st, fr, place[2])
            j = self.vec_index(st, cont, idxv.t)
            return Ref(r.box, r.path + (("e", j + cont.low),))
        if k == "constindex":
            r = self.place_ref(st, fr, place[1])
            cont = self.get_at(st, r.box, r.path)
            if isinstance(cont, Vec) and cont.prefix is None:
                j = (len(cont.items) - place[2]) if place[4] else place[2]
                return Ref(r.box, r.path + (("e", j + cont.low),))
            if isinstance(cont, Tuple):
                return Ref(r.box, r.path + (("f", place[2], "?"),))
            raise Unsupported("constant index into %r" % (cont,))
        raise Unsupported("place kind %s" % k)

    def slot_step(self, st, cont, idx_term):
        """path step for element idx_term of a slotted vector (bounds already established)"""
        key = str(z3.simplify(idx_term))
        if key not in cont.slots:
            for k2, (t2, _) in cont.slots.items():
                if self.feasible(st, t2 == idx_term):
                    raise Unsupported("heap slots %s and %s may alias" % (key, k2))
            cont.slots[key] = [idx_term, mk_sym(self.tc, cont.elem_ty, "%s@%s" % (cont.prefix[0], key))]
        return ("s", key)

    def vec_index(self, st, cont, idx_term):
        """Position in cont.items addressed by absolute index term (bounds must already hold).
        Indices that reach below the explicit items materialise elements of the symbolic prefix."""
        if not isinstance(cont, Vec):
            raise Unsupported("index into %r" % (cont,))
        base = cont.prefix[1] if cont.prefix is not None else z3.BitVecVal(0, 64)
        off = z3.simplify(idx_term - base)
        if z3.is_bv_value(off):
            o = off.as_signed_long()
            if o < 0:
                if cont.prefix is None or -o > 8:
                    raise Unsupported("index %d below the explicit part of a vector" % o)
                cont.materialize(self.tc, -o)
                return 0
            if o >= len(cont.items):
                raise Unsupported("index offset %d beyond %d explicit items" % (o, len(cont.items)))
            return o
        return self.concrete_int(st, off, candidates=list(range(len(cont.items))), what="vec index offset")

    def read_local(self, st, fr, name):
        b = fr.locals.get(name)
        if b is None:
            raise Unsupported("read of undefined local " + name)
        return b.val

    def read_place(self, st, fr, place):
        r = self.place_ref(st, fr, place)
        return self.get_at(st, r.box, r.path)

    def write_place(self, st, fr, place, val):
        r = self.place_ref(st, fr, place)
        self.set_at(st, r.box, r.path, val)

    # ------------------------------------------------------------------ constants
    def const_value(self, st, fr, text, want_ty=None):
        t = text.strip()
        if t == "true":
            return Bool(z3.BoolVal(True))
        if t == "false":
            return Bool(z3.BoolVal(False))
        if t == "()":
            return Unit()
        m = re.fullmatch(r"(-?[0-9][0-9_]*)_?(i8|i16|i32|i64|i128|isize|u8|u16|u32|u64|u128|usize)", t)
        if m:
            bits, signed = INT_TYPES[m.group(2)]
            return Int(z3.BitVecVal(int(m.group(1).replace("_", "")), bits), bits, signed)
        m = re.fullmatch(r"(?:[a-z_:]*::)?(?:<impl )?(i8|i16|i32|i64|i128|isize|u8|u16|u32|u64|u128|usize)>?::(MIN|MAX|BITS)", t)
        if m:
            bits, signed = INT_TYPES[m.group(1)]
            if m.group(2) == "BITS":
                return Int(z3.BitVecVal(bits, 32), 32, False)
            if m.group(2) == "MAX":
                v = (1 << (bits - 1)) - 1 if signed else (1 << bits) - 1
            else:
                v = -(1 << (bits - 1)) if signed else 0
            return Int(z3.BitVecVal(v, bits), bits, signed)
        m = re.fullmatch(r"(-?[0-9.]+(?:e-?[0-9]+)?|-?inf|NaN)(f64|f32)", t)
        if m:
            srt = z3.Float64() if m.group(2) == "f64" else z3.Float32()
            s = m.group(1)
            if s == "inf":
                return Float(z3.fpPlusInfinity(srt), 64 if m.group(2) == "f64" else 32)
            if s == "-inf":
                return Float(z3.fpMinusInfinity(srt), 64 if m.group(2) == "f64" else 32)
            if s == "NaN":
                return Float(z3.fpNaN(srt), 64 if m.group(2) == "f64" else 32)
            return Float(z3.FPVal(float(s), srt), 64 if m.group(2) == "f64" else 32)
        m = re.fullmatch(r"'(\\?.|\\u\{[0-9a-fA-F]+\})'", t)
        if m:
            s = m.group(1)
            esc = {"\\n": "\n", "\\r": "\r", "\\t": "\t", "\\\\": "\\", "\\'": "'", "\\\"": '"', "\\0": "\0"}
            ch = esc.get(s, s)
            if s.startswith("\\u{"):
                ch = chr(int(s[3:-1], 16))
            return Int(z3.BitVecVal(ord(ch), 32), 32, False)
        if t.startswith('"') or t.startswith('b"'):
            return Ref(Box(Opaque("str", z3.Const("strlit!" + t[:60], opaque_sort("str"))), name="strlit!" + t[:40]))
        # enum unit variant constant:  Option::<T>::None  /  Result::<Infallible, E> ...
        m = re.fullmatch(r"(.*?)::([A-Z][A-Za-z0-9_]*)", strip_generics(t))
        if m and base_name(m.group(1)) in self.defs.enums:
            en = base_name(m.group(1))
            try:
                self.defs.variant_index(en, m.group(2))
                return Enum(want_ty or en, m.group(2), None)
            except KeyError:
                pass
        # bare variant name of the destination enum type (paths are printed trimmed):  `Equal`, `Less`
        if want_ty and re.fullmatch(r"[A-Z][A-Za-z0-9_]*", t):
            bn = base_name(split_generic(strip_ty(want_ty))[0])
            if bn in self.defs.enums and any(v == t for v, _, _ in self.defs.enums[bn]):
                return Enum(strip_ty(want_ty), t, None)
        # promoted constant of the current function
        pm = re.search(r"::(promoted\[\d+\])$", t)
        if pm and fr is not None:
            key = "const %s::%s" % (fr.fn.name, pm.group(1))
            if key in self.funcs:
                return self.eval_const_body(st, self.funcs[key])
            # closures / nested items: try by suffix
            suf = "::" + self._last_seg(t[: -len(pm.group(0))]) + pm.group(0)
            cands = [k for k in self.funcs if k.startswith("const ") and k.endswith(suf)]
            if len(cands) == 1:
                return self.eval_const_body(st, self.funcs[cands[0]])
            raise Unsupported("promoted constant not found: " + t)
        # named constant / static with a MIR body
        for key in ("const " + t, "static " + t):
            if key in self.funcs:
                return self.eval_const_body(st, self.funcs[key])
        if re.fullmatch(r"[A-Za-z_][A-Za-z0-9_:]*", t) and not t.startswith(("core::", "std::")):
            seg = t.split("::")[-1]
            cands = [k for k in self.const_index.get(seg, []) if ("const " + t).endswith(k[6:]) or k[6:].endswith(t)]
            if len(cands) == 1:
                return self.eval_const_body(st, self.funcs[cands[0]])
        # promoted
        # fn item
        f = None
        try:
            f = self.resolve(t, None) if False else None
        except Exception:
            f = None
        if re.match(r"^[A-Za-z_<{]", t) and ("::" in t or t in self.funcs or self._last_seg(t) in self.by_last):
            if t in self.funcs or self._last_seg(t) in self.by_last or "<impl" in t or t.startswith("<"):
                return FnVal(t)
        if t.startswith("ZeroSized:"):
            m = re.match(r"ZeroSized: (\{closure@[^}]*\})", t)
            if m:
                return FnVal(m.group(1))
        # opaque named constant (string tables etc.)
        return Opaque("const", z3.Const("const!" + t[:80], opaque_sort(want_ty or "const")))

    def eval_const_body(self, st, f):
        try:
            return self.eval_const_body0(st, f)
        except Unsupported:
            k, info = self.tc.kind(f.ret)
            if k == "opaque":
                # e.g. arcstr::literal! tables: an opaque constant identified by its name
                return Opaque(strip_ty(f.ret), z3.Const("const!" + f.name[6:][:80], opaque_sort(strip_ty(f.ret))))
            raise

    def eval_const_body0(self, st, f):
        st2 = PathState()
        st2.pc = list(st.pc)
        fr = Frame(f)
        st2.frames.append(fr)
        outs = self.run_state(st2)
        rets = [o for o in outs if o.kind == "return"]
        if len(rets) != 1 or len(outs) != 1:
            raise Unsupported("constant body %s did not evaluate to one value" % f.name)
        return rets[0].value

    # ------------------------------------------------------------------ operands / rvalues
    def eval_operand(self, st, fr, op, want_ty=None):
        k = op[0]
        if k in ("copy", "move"):
            v = self.read_place(st, fr, op[1])
            if isinstance(v, Uninit):
                lty = fr.fn.locals.get(op[1][1], "") if op[1][0] == "local" else ""
                if strip_ty(lty).startswith("{closure@"):
                    return FnVal(strip_ty(lty))          # zero-sized capture-less closure
                raise Unsupported("use of uninitialised %r in %s" % (op[1], fr.fn.name))
            return clone_val(v)
        if k == "const":
            return self.const_value(st, fr, op[1], want_ty)
        raise Unsupported("operand %r" % (op,))

    def int_binop(self, st, op, a, b):
        if isinstance(a, Bool) and isinstance(b, Bool):
            if op == "BitAnd":
                return Bool(z3.And(a.t, b.t))
            if op == "BitOr":
                return Bool(z3.Or(a.t, b.t))
            if op == "BitXor":
                return Bool(z3.Xor(a.t, b.t))
            if op == "Eq":
                return Bool(a.t == b.t)
            if op == "Ne":
                return Bool(a.t != b.t)
            raise Unsupported("bool binop " + op)
        if isinstance(a, Float) and isinstance(b, Float):
            return self.float_binop(op, a, b)
        if isinstance(a, Enum) and isinstance(b, Enum) and op in ("Eq", "Ne"):
            e = veq(self, a, b)
            return Bool(e if op == "Eq" else z3.Not(e))
        if not (isinstance(a, Int) and isinstance(b, Int)):
            raise Unsupported("binop %s on %r, %r" % (op, a, b))
        x, y, s, w = a.t, b.t, a.signed, a.bits
        if op in ("Shl", "Shr", "ShlUnchecked", "ShrUnchecked"):
            # rhs may have another width; MIR semantics: shift amount masked by (bits-1) for wrapping ops,
            # the overflow assertion (if any) is a separate assert terminator
            if b.bits != w:
                y = z3.Extract(w - 1, 0, y) if b.bits > w else z3.ZeroExt(w - b.bits, y)
            y = y & z3.BitVecVal(w - 1, w)
            if op.startswith("Shl"):
                return Int(x << y, w, s)
            return Int((x >> y) if s else z3.LShR(x, y), w, s)
        if b.bits != w:
            raise Unsupported("binop %s width mismatch %d/%d" % (op, w, b.bits))
        if op in ("Add", "AddUnchecked"):
            return Int(x + y, w, s)
        if op in ("Sub", "SubUnchecked"):
            return Int(x - y, w, s)
        if op in ("Mul", "MulUnchecked"):
            return Int(x * y, w, s)
        if op == "Div":
            return Int((x / y) if s else z3.UDiv(x, y), w, s)
        if op == "Rem":
            return Int(z3.SRem(x, y) if s else z3.URem(x, y), w, s)
        if op == "BitAnd":
            return Int(x & y, w, s)
        if op == "BitOr":
            return Int(x | y, w, s)
        if op == "BitXor":
            return Int(x ^ y, w, s)
        if op == "Eq":
            return Bool(x == y)
        if op == "Ne":
            return Bool(x != y)
        if op == "Lt":
            return Bool((x < y) if s else z3.ULT(x, y))
        if op == "Le":
            return Bool((x <= y) if s else z3.ULE(x, y))
        if op == "Gt":
            return Bool((x > y) if s else z3.UGT(x, y))
        if op == "Ge":
            return Bool((x >= y) if s else z3.UGE(x, y))
        if op == "Cmp":
            lt = (x < y) if s else z3.ULT(x, y)
            d = z3.If(lt, z3.BitVecVal(-1, 64), z3.If(x == y, z3.BitVecVal(0, 64), z3.BitVecVal(1, 64)))
            return self.ordering_from_term(st, d)
        if op in ("AddWithOverflow", "SubWithOverflow", "MulWithOverflow"):
            if op[0] == "A":
                r = x + y
                if s:
                    ov = z3.Or(z3.Not(z3.BVAddNoOverflow(x, y, True)), z3.Not(z3.BVAddNoUnderflow(x, y)))
                else:
                    ov = z3.Not(z3.BVAddNoOverflow(x, y, False))
            elif op[0] == "S":
                r = x - y
                if s:
                    ov = z3.Or(z3.Not(z3.BVSubNoOverflow(x, y)), z3.Not(z3.BVSubNoUnderflow(x, y, True)))
                else:
                    ov = z3.Not(z3.BVSubNoUnderflow(x, y, False))
            else:
                r = x * y
                if s:
                    ov = z3.Or(z3.Not(z3.BVMulNoOverflow(x, y, True)), z3.Not(z3.BVMulNoUnderflow(x, y)))
                else:
                    ov = z3.Not(z3.BVMulNoOverflow(x, y, False))
            return Tuple([Int(r, w, s), Bool(ov)])
        raise Unsupported("int binop " + op)

    def ordering_from_term(self, st, d):
        """d: BV64 in {-1,0,1} -> Ordering enum (forks if not pinned)."""
        v = self.concrete_int(st, d, candidates=[(1 << 64) - 1, 0, 1], what="ordering")
        name = {(1 << 64) - 1: "Less", 0: "Equal", 1: "Greater"}[v]
        return Enum("std::cmp::Ordering", name, None)

    def float_binop(self, op, a, b):
        x, y = a.t, b.t
        rm = z3.RNE()
        if op == "Add":
            return Float(z3.fpAdd(rm, x, y), a.bits)
        if op == "Sub":
            return Float(z3.fpSub(rm, x, y), a.bits)
        if op == "Mul":
            return Float(z3.fpMul(rm, x, y), a.bits)
        if op == "Div":
            return Float(z3.fpDiv(rm, x, y), a.bits)
        if op == "Rem":
            return Float(fp_fmod(x, y), a.bits)
        if op == "Eq":
            return Bool(z3.fpEQ(x, y))
        if op == "Ne":
            return Bool(z3.Not(z3.fpEQ(x, y)))
        if op == "Lt":
            return Bool(z3.fpLT(x, y))
        if op == "Le":
            return Bool(z3.fpLEQ(x, y))
        if op == "Gt":
            return Bool(z3.fpGT(x, y))
        if op == "Ge":
            return Bool(z3.fpGEQ(x, y))
        raise Unsupported("float binop " + op)

    def cast(self, st, v, ty, kind):
        k, info = self.tc.kind(ty)
        if kind.startswith("IntToInt"):
            if isinstance(v, Bool):
                v = Int(z3.If(v.t, z3.BitVecVal(1, 8), z3.BitVecVal(0, 8)), 8, False)
            if isinstance(v, Enum):
                # fieldless enum as integer
                bn = base_name(split_generic(v.ty)[0])
                if v.variant is None:
                    raise Unsupported("cast of uninspected enum")
                d = STD_ENUM_DISCR.get(bn, {}).get(v.variant)
                if d is None:
                    d = self.defs.variant_index(bn, v.variant)
                v = Int(z3.BitVecVal(d, 64), 64, True)
            bits, signed = info
            if bits == v.bits:
                return Int(v.t, bits, signed)
            if bits < v.bits:
                return Int(z3.Extract(bits - 1, 0, v.t), bits, signed)
            ext = z3.SignExt if v.signed else z3.ZeroExt
            return Int(ext(bits - v.bits, v.t), bits, signed)
        if kind.startswith("IntToFloat"):
            srt = z3.Float64() if info == 64 else z3.Float32()
            t = z3.fpSignedToFP(z3.RNE(), v.t, srt) if v.signed else z3.fpUnsignedToFP(z3.RNE(), v.t, srt)
            return Float(t, info)
        if kind.startswith("FloatToInt"):
            bits, signed = info
            return Int(fp_to_int_sat(v.t, bits, signed), bits, signed)
        if kind.startswith("FloatToFloat"):
            srt = z3.Float64() if info == 64 else z3.Float32()
            return Float(z3.fpFPToFP(z3.RNE(), v.t, srt), info)
        if kind.startswith("PointerCoercion") or kind.startswith("PtrToPtr") or kind.startswith("Transmute") and isinstance(v, (Ref, FnVal)):
            return v
        if kind.startswith("PointerExposeProvenance") and isinstance(v, FnVal):
            return Int(z3.BitVec("fnaddr!" + v.name[:100], 64), 64, False)
        raise Unsupported("cast %s to %s of %r" % (kind, ty, v))

    def eval_rvalue(self, st, fr, rv, dest_ty=None):
        k = rv[0]
        if k == "use":
            return self.eval_operand(st, fr, rv[1], dest_ty)
        if k == "binop":
            a = self.eval_operand(st, fr, rv[2])
            b = self.eval_operand(st, fr, rv[3])
            return self.int_binop(st, rv[1], a, b)
        if k == "unop":
            a = self.eval_operand(st, fr, rv[2])
            if rv[1] == "Not":
                if isinstance(a, Bool):
                    return Bool(z3.Not(a.t))
                return Int(~a.t, a.bits, a.signed)
            if rv[1] == "Neg":
                if isinstance(a, Float):
                    return Float(z3.fpNeg(a.t), a.bits)
                return Int(-a.t, a.bits, a.signed)
            if rv[1] == "PtrMetadata":
                # length of the slice behind a wide pointer
                v = a
                while isinstance(v, Ref):
                    v = self.get_at(st, v.box, v.path)
                if isinstance(v, Vec):
                    return Int(v.len_term(), 64, False)
                if isinstance(v, SliceView):
                    if v.whole:
                        base = v.base
                        bv = self.get_at(st, base.box, base.path)
                        while isinstance(bv, Ref):
                            bv = self.get_at(st, bv.box, bv.path)
                        return Int(bv.len_term(), 64, False)
                    base = v.base
                    bv = self.get_at(st, base.box, base.path)
                    while isinstance(bv, Ref):
                        bv = self.get_at(st, bv.box, bv.path)
                    end = v.end if v.end is not None else len(bv.items)
                    return Int(z3.BitVecVal(end - v.start, 64), 64, False)
            raise Unsupported("unop " + rv[1])
        if k == "ref":
            r = self.place_ref(st, fr, rv[2])
            # make sure the referent exists (materialise lazily)
            cur = self.get_at(st, r.box, r.path)
            if isinstance(cur, Uninit) and rv[2][0] == "local" and strip_ty(fr.fn.locals.get(rv[2][1], "")).startswith("{closure@"):
                self.set_at(st, r.box, r.path, FnVal(strip_ty(fr.fn.locals[rv[2][1]])))
            return Ref(r.box, r.path, rv[1] == "mut")
        if k == "addr":
            r = self.place_ref(st, fr, rv[1])
            self.get_at(st, r.box, r.path)
            return Ref(r.box, r.path, True)
        if k == "discriminant":
            r = self.place_ref(st, fr, rv[1])
            v = self.get_at(st, r.box, r.path)
            return self.discriminant_of(st, fr, rv[1], v)
        if k == "cast":
            kind = rv[3]
            if rv[1][0] == "const" and not re.match(r"^(-?[0-9]|true|false|'|\")", rv[1][1]):
                v = self.const_value(st, fr, rv[1][1])
            else:
                v = self.eval_operand(st, fr, rv[1])
            return self.cast(st, v, rv[2], kind)
        if k == "tuple":
            if not rv[1]:
                return Unit()
            return Tuple([self.eval_operand(st, fr, o) for o in rv[1]])
        if k == "struct":
            path = rv[1]
            head = strip_generics(path)
            parts = head.split("::")
            bn = parts[-1]
            vals = {n: self.eval_operand(st, fr, o) for n, o in rv[2]}
            if bn in self.defs.structs:
                order = [f for f, _ in self.defs.structs[bn]]
                return Struct(dest_ty or bn, {order.index(n): v for n, v in vals.items()})
            if len(parts) >= 2 and parts[-2] in self.defs.enums:
                en = parts[-2]
                order = [f for f, _ in self.defs.variant_fields(en, bn)]
                return Enum(dest_ty or en, bn, Struct(en + "::" + bn, {order.index(n): v for n, v in vals.items()}))
            # struct-like value of an external crate (e.g. base32::Alphabet::RFC4648 { padding }): an opaque record
            return Struct(path, {i: v for i, (n_, v) in enumerate(vals.items())})
        if k == "ctor":
            path = rv[1]
            head = strip_generics(path)
            parts = head.split("::")
            bn = parts[-1]
            args = [self.eval_operand(st, fr, o) for o in rv[2]]
            if len(parts) >= 2 and parts[-2] in self.defs.enums:
                en = parts[-2]
                self.defs.variant_index(en, bn)
                return Enum(dest_ty or en, bn, Struct(en + "::" + bn, {i: a for i, a in enumerate(args)}) if args else None)
            if bn in self.defs.structs:
                return Struct(dest_ty or bn, {i: a for i, a in enumerate(args)})
            if not args:
                return self.const_value(st, fr, path, dest_ty)
            raise Unsupported("aggregate " + path)
        if k == "closure":
            caps = rv[2] if len(rv) > 2 else []
            env = Struct("closure-env", {i: self.eval_operand(st, fr, o) for i, (n, o) in enumerate(caps)}) if caps else None
            return FnVal(rv[1], env)
        if k == "array":
            return Vec("?", None, [self.eval_operand(st, fr, o) for o in rv[1]])
        if k == "repeat":
            n = int(re.sub(r"_usize$", "", rv[2].replace("const ", "").strip()))
            v = self.eval_operand(st, fr, rv[1])
            return Vec("?", None, [clone_val(v) for _ in range(n)])
        if k == "len":
            v = self.read_place(st, fr, rv[1])
            if isinstance(v, Vec):
                return Int(v.len_term(), 64, False)
            raise Unsupported("Len of %r" % (v,))
        raise Unsupported("rvalue %r" % (rv,))

    def enum_index(self, ty, variant):
        bn = base_name(split_generic(strip_ty(ty))[0])
        if bn in STD_ENUM_DISCR:
            return STD_ENUM_DISCR[bn][variant]
        return self.defs.variant_index(bn, variant)

    def enum_variants(self, ty):
        bn = base_name(split_generic(strip_ty(ty))[0])
        return [v for v, _, _ in self.defs.enums[bn]]

    def discriminant_of(self, st, fr, place, v):
        if isinstance(v, Enum):
            if v.variant is not None:
                d = self.enum_index(v.ty, v.variant)
                return Int(z3.BitVecVal(d, 64), 64, True)
            # lazy case split
            alts = []
            for var in self.enum_variants(v.ty):
                d = self.enum_index(v.ty, var)
                cond = v.discr == z3.BitVecVal(d, 64)
                if self.feasible(st, cond):
                    alts.append((cond, ("concretize", place, var), "%s is %s" % (v.origin, var)))
            if not alts:
                raise Unsupported("no feasible variant for %s" % v.origin)
            raise Fork(alts)
        if isinstance(v, Int):
            return v
        raise Unsupported("discriminant of %r" % (v,))

    def apply_edit(self, st, edit):
        if edit is None:
            return
        if edit[0] == "concretize":
            fr = st.frames[-1]
            r = self.place_ref(st, fr, edit[1])
            v = self.get_at(st, r.box, r.path)
            if isinstance(v, Enum) and v.variant is None:
                v.variant = edit[2]
                v.payload = None
            return
        if edit[0] == "unsupported":
            raise Unsupported(edit[1])
        if edit[0] == "call":
            edit[1](st)
            return
        raise Unsupported("edit %r" % (edit,))

    # ------------------------------------------------------------------ running
    def call_function(self, fn, args, pc=None, ghost=None):
        """Run fn from a fresh path state; returns list of Outcome."""
        st = PathState()
        st.pc = list(pc or [])
        if ghost:
            st.ghost.update(ghost)
        self.push_frame(st, fn, args, None, None)
        # run on a private copy: the caller's objects remain the pristine pre-state
        st = st.fork()
        return self.run_state(st)

    def push_frame(self, st, fn, args, dest, ret_bb):
        fr = Frame(fn, dest, ret_bb)
        if len(args) != len(fn.params):
            raise Unsupported("arity mismatch calling %s" % fn.name)
        for (p, ty), a in zip(fn.params, args):
            fr.locals[p] = Box(a, name="%s.%s" % (self._last_seg(fn.name), p))
        st.frames.append(fr)
        self.functions_executed.add(fn.name)
        if len(st.frames) > 60:
            raise Unsupported("call depth > 60 (recursion?) at " + fn.name)

    def run_state(self, st0):
        work = [st0]
        outs = []
        base_depth = len(st0.frames) - 1
        while work:
            st = work.pop()
            if self.path_budget is not None and len(outs) + len(work) > self.path_budget:
                raise Unsupported("path budget %d exceeded" % self.path_budget)
            if self.deadline is not None and time.time() > self.deadline:
                raise Unsupported("lemma time budget exceeded")
            try:
                res = self.run_path(st, work, base_depth)
                if res is not None:
                    outs.append(res)
            except Panic as p:
                fr = st.frames[-1]
                outs.append(Outcome("panic", st, msg="%s: %s" % (p.kind, p.msg), where="%s %s" % (fr.fn.name, fr.bb)))
        return outs

    def run_path(self, st, work, base_depth):
        while True:
            st.steps += 1
            if st.steps > self.step_limit:
                raise Unsupported("step limit")
            if (st.steps & 1023) == 0 and self.deadline is not None and time.time() > self.deadline:
                raise Unsupported("lemma time budget exceeded")
            fr = st.frames[-1]
            blk = fr.fn.blocks[fr.bb]
            try:
                if fr.idx < len(blk.stmts):
                    self.exec_stmt(st, fr, blk.stmts[fr.idx])
                    fr.idx += 1
                    continue
                done = self.exec_term(st, fr, blk.term, work, base_depth)
                if isinstance(done, PathState):
                    st = done
                    continue
                if done is not None:
                    return done
            except DeadPath:
                return None
            except Fork as f:
                alts = f.alts
                first = True
                made = []
                for cond, edit, note in alts:
                    s2 = st.fork()
                    if cond is not None:
                        s2.pc.append(z3.simplify(cond))
                    try:
                        self.apply_edit(s2, edit)
                    except Unsupported:
                        raise
                    s2.notes.append(note)
                    made.append(s2)
                if not made:
                    return None
                # continue with the first, queue the rest
                for s2 in made[1:]:
                    work.append(s2)
                st = made[0]
                continue

    def goto(self, st, fr, bb):
        key = (len(st.frames), fr.fn.name, bb)
        n = st.visits.get(key, 0) + 1
        st.visits[key] = n
        if n > self.loop_bound:
            raise Unsupported("unwinding bound %d hit in %s at %s" % (self.loop_bound, fr.fn.name, bb))
        fr.bb = bb
        fr.idx = 0

    def exec_stmt(self, st, fr, s):
        k = s[0]
        if k == "nop":
            return
        if k == "assign":
            place, rv = s[1], s[2]
            dty = fr.fn.locals.get(place[1]) if place[0] == "local" else (place[3] if place[0] == "field" else None)
            v = self.eval_rvalue(st, fr, rv, dty)
            self.write_place(st, fr, place, v)
            return
        if k == "setdiscr":
            r = self.place_ref(st, fr, s[1])
            v = self.get_at(st, r.box, r.path)
            raise Unsupported("SetDiscriminant")
        if k == "assume":
            return
        raise Unsupported("statement %r in %s" % (s, fr.fn.name))

    def exec_term(self, st, fr, t, work, base_depth):
        k = t[0]
        if k == "goto":
            self.goto(st, fr, t[1])
            return None
        if k == "return":
            rv = fr.locals.get("_0")
            val = rv.val if rv is not None else Unit()
            if isinstance(val, Uninit):
                val = Unit()
            st.frames.pop()
            if len(st.frames) == base_depth:
                return Outcome("return", st, value=val)
            caller = st.frames[-1]
            if fr.dest is not None:
                self.set_at(st, fr.dest.box, fr.dest.path, val)
            self.goto(st, caller, fr.ret_bb)
            return None
        if k == "switch":
            v = self.eval_operand(st, fr, t[1])
            targets = t[2]
            if isinstance(v, Bool):
                term = z3.If(v.t, z3.BitVecVal(1, 8), z3.BitVecVal(0, 8))
                bits = 8
            elif isinstance(v, Int):
                term, bits = v.t, v.bits
            else:
                raise Unsupported("switch on %r" % (v,))
            term = z3.simplify(term)
            keys = [kk for kk in targets if kk != "otherwise"]
            if z3.is_bv_value(term):
                val = term.as_long()
                for kk in keys:
                    if int(kk) % (1 << bits) == val:
                        self.goto(st, fr, targets[kk])
                        return None
                if "otherwise" in targets:
                    self.goto(st, fr, targets["otherwise"])
                    return None
                raise Unsupported("switch without matching target")
            alts = []
            conds = []
            for kk in keys:
                c = term == z3.BitVecVal(int(kk) % (1 << bits), bits)
                conds.append(c)
                if self.feasible(st, c):
                    alts.append((c, targets[kk]))
            if "otherwise" in targets:
                c = z3.And(*[z3.Not(x) for x in conds]) if conds else z3.BoolVal(True)
                if self.feasible(st, c):
                    alts.append((c, targets["otherwise"]))
            if not alts:
                return None     # dead path
            rest = []
            for c, bb in alts[1:]:
                s2 = st.fork()
                s2.pc.append(z3.simplify(c))
                f2 = s2.frames[-1]
                self.goto(s2, f2, bb)
                work.append(s2)
            st.pc.append(z3.simplify(alts[0][0]))
            self.goto(st, fr, alts[0][1])
            return None
        if k == "assert":
            _, neg, op, msg, targets = t
            v = self.eval_operand(st, fr, op)
            ok = z3.Not(v.t) if neg else v.t
            bad = z3.Not(ok)
            if self.feasible(st, bad):
                s2 = st.fork()
                s2.pc.append(z3.simplify(bad))
                raise_out = Outcome("panic", s2, msg="assert: " + msg, where="%s %s" % (fr.fn.name, fr.bb))
                st.ghost.setdefault("_side_outcomes", [])
                self._side.append(raise_out)
            if not self.feasible(st, ok):
                return None
            st.pc.append(z3.simplify(ok))
            self.goto(st, fr, targets["success"])
            return None
        if k == "drop":
            self.goto(st, fr, t[2]["return"])
            return None
        if k == "unreachable":
            return Outcome("unreachable", st, msg="unreachable terminator", where="%s %s" % (fr.fn.name, fr.bb))
        if k == "resume":
            return Outcome("panic", st, msg="unwind", where=fr.fn.name)
        if k == "call":
            return self.exec_call(st, fr, t, work, base_depth)
        raise Unsupported("terminator %r" % (t,))

    def exec_call(self, st, fr, t, work, base_depth):
        _, dest, callee, argops, targets = t
        # callee may be a local holding a fn pointer:  move _2
        fnval = None
        m = re.fullmatch(r"(?:move|copy) (_\d+)", callee)
        if m:
            fnval = self.read_local(st, fr, m.group(1))
            if not isinstance(fnval, FnVal):
                raise Unsupported("indirect call through %r" % (fnval,))
            callee_name = fnval.name
        else:
            callee_name = callee
        args = [self.eval_operand(st, fr, a) for a in argops]
        ret_bb = targets.get("return")
        # per-lemma override
        for pat, fnp in self.overrides.items():
            if re.search(pat, callee_name):
                val = fnp(self, st, fr, callee_name, args)
                return self.finish_call(st, fr, dest, ret_bb, val, work)
        # std blanket impls through references:  <&A as PartialEq<&B>>::eq(&&a, &&b) == <A as PartialEq<B>>::eq(&a, &b)
        while True:
            mm = re.match(r"^<&(?:mut )?(.*) as (PartialEq|PartialOrd|Ord)(?:<&(?:mut )?(.*)>)?>::(\w+)$", callee_name)
            if not mm or len(args) != 2 or not all(isinstance(a, Ref) for a in args):
                break
            a0 = self.get_at(st, args[0].box, args[0].path)
            a1 = self.get_at(st, args[1].box, args[1].path)
            if not (isinstance(a0, Ref) and isinstance(a1, Ref)):
                break
            args = [a0, a1]
            callee_name = "<%s as %s%s>::%s" % (mm.group(1), mm.group(2), ("<%s>" % mm.group(3)) if mm.group(3) and strip_ty(mm.group(3)) != strip_ty(mm.group(1)) else "", mm.group(4))
        # Fn* trait shims:  <F as FnOnce<Args>>::call_once(f, (args,))
        m = re.match(r"^<(.*) as Fn(Once|Mut)?<.*>>::call(_once|_mut)?$", callee_name)
        if m and isinstance(args[0], (FnVal, Ref)):
            f0 = args[0]
            if isinstance(f0, Ref):
                f0 = self.get_at(st, f0.box, f0.path)
            if isinstance(f0, Uninit) and m.group(1).startswith("{closure@"):
                # capture-less closure: a zero-sized value that MIR never initialises
                f0 = FnVal(m.group(1))
                if isinstance(args[0], Ref):
                    self.set_at(st, args[0].box, args[0].path, f0)
                else:
                    args[0] = f0
            tup = args[1].items if isinstance(args[1], Tuple) else []
            callee_name = f0.name
            if callee_name.startswith("{closure@"):
                args = [args[0]] + list(tup)
            else:
                args = list(tup)
        target = None
        if callee_name.startswith("{closure@"):
            target = self.find_closure(callee_name)
            if fnval is not None or not (args and isinstance(args[0], (FnVal, Ref))):
                # calling a reified closure pointer: closure body takes the env first
                args = [FnVal(callee_name)] + args
            args = self.closure_self(target, args)
        else:
            target = self.resolve(callee_name, args)
        if target is not None:
            if len(target.params) == len(args) + 1 and "{closure#" in target.name:
                args = self.closure_self(target, [FnVal(target.name)] + args)
            dref = self.place_ref(st, fr, dest) if dest is not None else None
            self.push_frame(st, target, args, dref, ret_bb)
            return None
        val = self.summ.call(st, fr, callee_name, args, argops)
        return self.finish_call(st, fr, dest, ret_bb, val, work)

    def finish_call(self, st, fr, dest, ret_bb, val, work):
        """Store a summary's result and continue. `val` may be Multi([(state, value)...])."""
        if ret_bb is None:
            raise Unsupported("summary returned from a diverging call")
        depth = len(st.frames)
        if isinstance(val, Multi):
            alts = val.alts
            if not alts:
                raise DeadPath()
            # a nested run may have abandoned the object `st` at a fork: only the returned states are live
            depth = len(alts[0][0].frames)
            for s2, v2 in alts[1:]:
                f2 = s2.frames[depth - 1]
                if dest is not None:
                    self.write_place(s2, f2, dest, v2)
                self.goto(s2, f2, ret_bb)
                work.append(s2)
            s1, v1 = alts[0]
            f1 = s1.frames[depth - 1]
            if dest is not None:
                self.write_place(s1, f1, dest, v1)
            self.goto(s1, f1, ret_bb)
            return s1 if s1 is not st else None
        if dest is not None:
            self.write_place(st, fr, dest, val)
        self.goto(st, fr, ret_bb)
        return None

    def closure_self(self, target, args):
        """first argument of a closure body: the env by value or behind a reference, as its MIR expects"""
        if not args:
            return args
        p0 = strip_ty(target.params[0][1])
        a0 = args[0]
        if p0.startswith("&") and isinstance(a0, FnVal):
            a0 = Ref(Box(a0, name=self.fresh_name("closure-env")))
        elif not p0.startswith("&") and isinstance(a0, Ref):
            a0 = self.get_at(None, a0.box, a0.path)
        return [a0] + list(args[1:])

    def find_closure(self, name):
        # '{closure@src/arith.rs:13:21: 13:25}' -> function whose first param type is this closure
        name = name.split("}")[0] + "}"
        for f in self.funcs.values():
            if f.params and name in f.params[0][1] and "{closure#" in f.name:
                return f
        raise Unsupported("closure body not found: " + name)

    # assert side outcomes are collected here per run
    _side = []


def find_box(st, name):
    seen = set()

    def walk(v):
        if isinstance(v, Ref):
            if id(v.box) in seen:
                return None
            seen.add(id(v.box))
            if v.box.name == name:
                return v.box
            return walk(v.box.val)
        if isinstance(v, Struct):
            for x in v.fields.values():
                r = walk(x)
                if r is not None:
                    return r
        elif isinstance(v, Enum) and v.payload is not None:
            return walk(v.payload)
        elif isinstance(v, Tuple):
            for x in v.items:
                r = walk(x)
                if r is not None:
                    return r
        elif isinstance(v, Vec):
            for x in v.items:
                r = walk(x)
                if r is not None:
                    return r
        return None

    for fr in st.frames:
        for b in fr.locals.values():
            if b.name == name:
                return b
            r = walk(b.val)
            if r is not None:
                return r
    return None


def run_function(ex, fn, args, pc=None, ghost=None):
    """Run and return all outcomes including assertion-failure side paths."""
    ex._side = []
    outs = ex.call_function(fn, args, pc, ghost)
    outs = outs + ex._side
    ex._side = []
    return outs


# --------------------------------------------------------------------------- equality & float helpers

_MODTAGS = [False]


def veq_modtags(ex, a, b):
    """equality as the language sees it: tag wrappers are transparent at every level (Cell::eq)"""
    _MODTAGS[0] = True
    try:
        return veq(ex, a, b)
    finally:
        _MODTAGS[0] = False


def _untag(ex, c):
    for _ in range(3):
        if isinstance(c, Enum) and c.variant == "WithTag" and base_name(split_generic(strip_ty(c.ty))[0]) == "Cell":
            rc = ex.summ.payload(c, 0, "std::rc::Rc<cell::WithTag>")
            wt = ex.get_at(None, rc.box, rc.path)
            c = ex.step_get(None, wt, ("f", 1, "cell::Cell"))
        else:
            break
    return c


def veq(ex, a, b):
    """z3 formula: values a and b are structurally equal."""
    if _MODTAGS[0] and isinstance(a, Enum) and isinstance(b, Enum):
        a, b = _untag(ex, a), _untag(ex, b)
    if isinstance(a, Int) and isinstance(b, Int):
        return a.t == b.t
    if isinstance(a, Bool) and isinstance(b, Bool):
        return a.t == b.t
    if isinstance(a, Float) and isinstance(b, Float):
        return a.t == b.t          # structural (bit-level up to NaN payload) equality
    if isinstance(a, Unit) and isinstance(b, Unit):
        return z3.BoolVal(True)
    if isinstance(a, Opaque) and isinstance(b, Opaque):
        if a.term.sort() != b.term.sort():
            return z3.BoolVal(False)
        return a.term == b.term
    if isinstance(a, FnVal) and isinstance(b, FnVal):
        return z3.BoolVal(a.name == b.name)
    if isinstance(a, Tuple) and isinstance(b, Tuple):
        return z3.And(*[veq(ex, x, y) for x, y in zip(a.items, b.items)]) if a.items else z3.BoolVal(True)
    if isinstance(a, Ref) and isinstance(b, Ref):
        if a.box is b.box and a.path == b.path:
            return z3.BoolVal(True)
        return veq(ex, ex.get_at(None, a.box, a.path), ex.get_at(None, b.box, b.path))
    from e2 import strmodel as _sm
    if isinstance(a, (_sm.Text, _sm.StrBuf)) and isinstance(b, (_sm.Text, _sm.StrBuf)):
        ca = a.chars() if isinstance(a, _sm.Text) else a.chars
        cb = b.chars() if isinstance(b, _sm.Text) else b.chars
        if ca is None or cb is None:
            return z3.BoolVal(a is b)
        if len(ca) != len(cb):
            return z3.BoolVal(False)
        return z3.And(*[x == y for x, y in zip(ca, cb)]) if ca else z3.BoolVal(True)
    if isinstance(a, _sm.GhostBits) and isinstance(b, _sm.GhostBits):
        if len(a.bits) != len(b.bits):
            return z3.BoolVal(False)
        return z3.And(*[x == y for x, y in zip(a.bits, b.bits)]) if a.bits else z3.BoolVal(True)
    if isinstance(a, Struct) and isinstance(b, Struct):
        keys = set(a.fields) | set(b.fields)
        cs = []
        for k in sorted(keys, key=str):
            if k in a.fields and k in b.fields:
                cs.append(veq(ex, a.fields[k], b.fields[k]))
            else:
                have, other = (a, b) if k in a.fields else (b, a)
                if other.origin is None:
                    return z3.BoolVal(False)
                # materialise the missing side deterministically with the same type as the present side
                ov = sym_like(ex, have.fields[k], "%s.%s" % (other.origin, k))
                other.fields[k] = ov
                cs.append(veq(ex, a.fields[k], b.fields[k]))
        if not keys and a.origin != b.origin:
            # two untouched lazy records of different origin: equal iff their identities are
            if a.origin is None or b.origin is None:
                return z3.BoolVal(a.origin is None and b.origin is None)
            s = opaque_sort("lazy_" + a.ty)
            return z3.Const(a.origin, s) == z3.Const(b.origin, s)
        return z3.And(*cs) if cs else z3.BoolVal(True)
    if isinstance(a, Enum) and isinstance(b, Enum):
        if a.variant is None and b.variant is None:
            if a.origin == b.origin:
                return z3.BoolVal(True)
            # two different never-inspected values: equal or not, the solver may choose (sound over-approximation)
            srt = opaque_sort("lazy_enum")
            return z3.And(a.discr == b.discr, z3.Const(a.origin, srt) == z3.Const(b.origin, srt))
        if a.variant is None or b.variant is None:
            sym, con = (a, b) if a.variant is None else (b, a)
            d = ex.enum_index(con.ty, con.variant)
            pay = Struct(sym.ty + "::" + con.variant, {}, origin=sym.origin + "." + con.variant)
            c = sym.discr == z3.BitVecVal(d, 64)
            if con.payload is None or not con.payload.fields:
                nf = len(ex.defs.variant_fields(base_name(split_generic(strip_ty(con.ty))[0]), con.variant))
                if nf == 0:
                    return c
                if con.payload is None:
                    if con.origin is not None and con.origin == sym.origin:
                        return c          # same lazy value, payload never touched
                    if con.origin is None:
                        raise Unsupported("payload-less concretised enum vs symbolic")
                    con.payload = Struct(con.ty + "::" + con.variant, {}, origin=con.origin + "." + con.variant)
                if con.payload.origin is not None and con.payload.origin == sym.origin + "." + con.variant:
                    return c
            return z3.And(c, veq(ex, pay, con.payload))
        if a.variant != b.variant:
            return z3.BoolVal(False)
        if a.payload is None and b.payload is None:
            return z3.BoolVal(True)
        pa = a.payload or Struct("", {}, origin=(a.origin + "." + a.variant) if a.origin else None)
        pb = b.payload or Struct("", {}, origin=(b.origin + "." + b.variant) if b.origin else None)
        return veq(ex, pa, pb)
    if isinstance(a, Vec) and isinstance(b, Vec):
        pa, pb = a.prefix, b.prefix
        if (pa is None) != (pb is None):
            return z3.BoolVal(False)
        cs = []
        if pa is not None:
            if pa[0] != pb[0]:
                # unrelated symbolic sequences: equal or not is unknown -> an uninterpreted fact about the two
                srt = opaque_sort("lazy_seq")
                return z3.And(a.len_term() == b.len_term(),
                              z3.Function("seq_eq", srt, srt, z3.BoolSort())(z3.Const(pa[0] + "#%d" % len(a.items), srt), z3.Const(pb[0] + "#%d" % len(b.items), srt)))
            if pa[2] != pb[2]:
                # align: make the shallower one explicit down to the same depth (on a copy)
                lo, hi = (a, b) if pa[2] < pb[2] else (b, a)
                lo2 = clone_val(lo)
                lo2.materialize(ex.tc, hi.prefix[2] - lo.prefix[2])
                return veq(ex, lo2, hi) if lo is a else veq(ex, hi, lo2)
            cs.append(pa[1] == pb[1])
        if len(a.items) != len(b.items):
            return z3.BoolVal(False)
        cs += [veq(ex, x, y) for x, y in zip(a.items, b.items)]
        if a.slots is not None or b.slots is not None:
            sa, sb = a.slots or {}, b.slots or {}
            for k in set(sa) | set(sb):
                if k in sa and k in sb:
                    cs.append(veq(ex, sa[k][1], sb[k][1]))
                else:
                    have = sa[k] if k in sa else sb[k]
                    other = mk_sym(ex.tc, a.elem_ty, "%s@%s" % (pa[0], k))
                    cs.append(veq(ex, have[1], other))
        return z3.And(*cs) if cs else z3.BoolVal(True)
    if isinstance(a, PMap) and isinstance(b, PMap):
        if (a.base is None) != (b.base is None) or len(a.entries) != len(b.entries):
            if a.base is None and b.base is None:
                return z3.BoolVal(False) if len(a.entries) != len(b.entries) else z3.BoolVal(True)
            raise Unsupported("equality of persistent maps with different write histories")
        cs = [a.base == b.base] if a.base is not None else []
        for (k1, v1), (k2, v2) in zip(a.entries, b.entries):
            cs += [veq(ex, k1, k2), veq(ex, v1, v2)]
        return z3.And(*cs) if cs else z3.BoolVal(True)
    if isinstance(a, Uninit) or isinstance(b, Uninit):
        return z3.BoolVal(isinstance(a, Uninit) and isinstance(b, Uninit))
    return z3.BoolVal(False)


def sym_like(ex, v, name):
    """fresh deterministic symbolic value shaped like v"""
    if isinstance(v, Int):
        return Int(z3.BitVec(name, v.bits), v.bits, v.signed)
    if isinstance(v, Bool):
        return Bool(z3.Bool(name))
    if isinstance(v, Float):
        return Float(z3.FP(name, v.t.sort()), v.bits)
    if isinstance(v, Unit):
        return v
    if isinstance(v, Opaque):
        return Opaque(v.ty, z3.Const(name, v.term.sort()))
    if isinstance(v, PMap):
        return PMap(v.ty, z3.Const(name, opaque_sort("rpds::RedBlackTreeMap")), [])
    if isinstance(v, Struct):
        return Struct(v.ty, {}, origin=name)
    if isinstance(v, Enum):
        return Enum(v.ty, None, None, origin=name, discr=z3.BitVec(name + ".discr", 64))
    if isinstance(v, Tuple):
        return Tuple([sym_like(ex, x, "%s.%d" % (name, i)) for i, x in enumerate(v.items)])
    if isinstance(v, Vec):
        return Vec(v.elem_ty, prefix=(name, z3.BitVec(name + ".len", 64), 0), items=[])
    if isinstance(v, Ref):
        return Ref(Box(sym_like(ex, ex.get_at(None, v.box, v.path), name + ".*"), name=name + ".*"))
    if isinstance(v, FnVal):
        return FnVal("?sym:" + name)
    raise Unsupported("sym_like %r" % (v,))


def fp_fmod(x, y):
    """C fmod / Rust `%` on floats: x - trunc(x/y)*y computed exactly == fpRem with RTZ quotient.
    z3's fpRem is IEEE remainder (round-to-nearest quotient); fmod is derived from it."""
    r = z3.fpRem(x, y)          # IEEE remainder, |r| <= |y|/2, exact
    # fmod has the sign of x and magnitude < |y|: if r has the opposite sign to x (and is non-zero) add/subtract |y|
    ay = z3.fpAbs(y)
    adj = z3.If(z3.And(z3.fpIsNegative(x), z3.fpGT(r, z3.FPVal(0.0, x.sort()))), z3.fpSub(z3.RNE(), r, ay),
                z3.If(z3.And(z3.fpIsPositive(x), z3.fpLT(r, z3.FPVal(0.0, x.sort()))), z3.fpAdd(z3.RNE(), r, ay), r))
    # zero results take the sign of x
    res = z3.If(z3.fpIsZero(adj), z3.If(z3.fpIsNegative(x), z3.FPVal(-0.0, x.sort()), z3.FPVal(0.0, x.sort())), adj)
    return z3.If(z3.Or(z3.fpIsNaN(x), z3.fpIsNaN(y), z3.fpIsInf(x), z3.fpIsZero(y)), z3.fpNaN(x.sort()),
                 z3.If(z3.fpIsInf(y), x, res))


def fp_to_int_sat(x, bits, signed):
    """Rust `as` from float to int: truncate toward zero, saturate, NaN -> 0."""
    srt = x.sort()
    if signed:
        lo, hi = -(1 << (bits - 1)), (1 << (bits - 1)) - 1
        conv = z3.fpToSBV(z3.RTZ(), x, z3.BitVecSort(bits))
        lo_f = z3.fpSignedToFP(z3.RTZ(), z3.BitVecVal(lo, bits), srt)
        # hi as float rounds up to 2^(bits-1) when not representable: saturate on x >= 2^(bits-1)
        two = z3.fpNeg(lo_f)
        return z3.If(z3.fpIsNaN(x), z3.BitVecVal(0, bits),
                     z3.If(z3.fpLEQ(x, lo_f), z3.BitVecVal(lo, bits),
                           z3.If(z3.fpGEQ(x, two), z3.BitVecVal(hi, bits), conv)))
    hi = (1 << bits) - 1
    conv = z3.fpToUBV(z3.RTZ(), x, z3.BitVecSort(bits))
    two = z3.fpMul(z3.RNE(), z3.fpUnsignedToFP(z3.RTZ(), z3.BitVecVal(1 << (bits - 1), bits), srt), z3.FPVal(2.0, srt))
    return z3.If(z3.fpIsNaN(x), z3.BitVecVal(0, bits),
                 z3.If(z3.fpLEQ(x, z3.FPVal(0.0, srt)), z3.BitVecVal(0, bits),
                       z3.If(z3.fpGEQ(x, two), z3.BitVecVal(hi, bits), conv)))
