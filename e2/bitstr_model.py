"""Standing summaries of `bitstr.rs` functions for E2 lemmas. The bit-level behaviour of Bitstr is decided
by E1 (Kani, properties C04/C05/C07); in E2 the decoders and the bit comparison are uninterpreted functions
of (range, buffer identity), so lemmas about the *use* of bit-strings stay loop-free."""
import re
import z3
from e2.values import *


def install(ex):

    def uf(name, ret_ty):
        def f(ex_, st, fr, callee, args):
            bs = ex_.get_at(st, args[0].box, args[0].path)
            rng = ex_.step_get(st, bs, ("f", 0, "std::ops::Range<usize>"))
            s0 = ex_.step_get(st, rng, ("f", 0, "usize")).t
            e0 = ex_.step_get(st, rng, ("f", 1, "usize")).t
            data = ex_.step_get(st, bs, ("f", 1, "std::rc::Rc<std::borrow::Cow<'static, [u8]>>"))
            dterm = z3.Const("dataid!" + data.box.name, opaque_sort("dataid"))
            extra = []
            for a in args[1:]:
                if isinstance(a, Enum):
                    extra.append(z3.BitVecVal(ex_.enum_index(a.ty, ex_.summ.variant_of(st, a)), 8))
                elif isinstance(a, Ref):
                    b2 = ex_.get_at(st, a.box, a.path)
                    r2 = ex_.step_get(st, b2, ("f", 0, "std::ops::Range<usize>"))
                    d2 = ex_.step_get(st, b2, ("f", 1, "std::rc::Rc<std::borrow::Cow<'static, [u8]>>"))
                    extra += [ex_.step_get(st, r2, ("f", 0, "usize")).t, ex_.step_get(st, r2, ("f", 1, "usize")).t,
                              z3.Const("dataid!" + d2.box.name, opaque_sort("dataid"))]
            k, info = ex_.tc.kind(ret_ty)
            rs = z3.BitVecSort(info[0]) if k == "int" else z3.BoolSort() if k == "bool" else (z3.Float64() if info == 64 else z3.Float32())
            terms = [s0, e0, dterm] + extra
            fn = z3.Function("dec_" + name, *([t.sort() for t in terms] + [rs]))
            t = fn(*terms)
            if k == "int":
                return Int(t, info[0], info[1])
            if k == "bool":
                return Bool(t)
            return Float(t, info)
        return f
    ex.overrides[r"bitstr::.*::to_uint$|Bitstr::to_uint$"] = uf("to_uint", "u128")
    ex.overrides[r"bitstr::.*::to_int$|Bitstr::to_int$"] = uf("to_int", "i128")
    ex.overrides[r"bitstr::.*::to_f32$|Bitstr::to_f32$"] = uf("to_f32", "f32")
    ex.overrides[r"bitstr::.*::to_f64$|Bitstr::to_f64$"] = uf("to_f64", "f64")
    ex.overrides[r"bitstr::.*::eq_with$|Bitstr::eq_with$"] = uf("eq_with", "bool")

    def fresh_pos(ex_, st, fr, callee, args):
        return Enum("Option<usize>", "Some", Struct("", {0: Int(z3.BitVec(ex_.fresh_name("mismatch_pos"), 64), 64, False)}))
    ex.overrides[r"as Iterator>::position::<\{closure@src/bitstr_ext\.rs"] = fresh_pos
    ex.overrides[r"^<Bits<'_> as Iterator>::zip"] = lambda ex_, st, fr, c, a: Opaque("iter", z3.Const(ex_.fresh_name("zip"), opaque_sort("iter")))
    ex.overrides[r"bitstr_num_tags$"] = lambda ex_, st, fr, c, a: Opaque("rpds::RedBlackTreeMap<cell::Cell, cell::Cell>", z3.Const(ex_.fresh_name("numtags"), opaque_sort("rpds::RedBlackTreeMap")))




def install_structural(ex):
    """Length-level summaries of the growing / copying Bitstr operations (contents are E1's subject)."""
    from e2.summaries import canon

    def rng(ex_, st, bs):
        r = ex_.step_get(st, bs, ("f", 0, "std::ops::Range<usize>"))
        return ex_.step_get(st, r, ("f", 0, "usize")).t, ex_.step_get(st, r, ("f", 1, "usize")).t

    def val_of(ex_, st, a):
        return ex_.get_at(st, a.box, a.path) if isinstance(a, Ref) else a

    def mk_bs(ex_, name, length_term, start_zero=True):
        s0 = z3.BitVecVal(0, 64) if start_zero else z3.BitVec(name + ".start", 64)
        r = Struct("std::ops::Range<usize>", {0: Int(s0, 64, False), 1: Int(z3.simplify(s0 + length_term), 64, False)})
        data = Ref(Box(Opaque("Cow<[u8]>", z3.Const(name + ".buf", opaque_sort("Cow<[u8]>"))), name=name + ".data"))
        return Struct("bitstr::Bitstr", {0: r, 1: data})

    def ident(ex_, st, v):
        c = canon(ex_, v)
        return c if c is not None else ex_.fresh_name("bs")

    def append(ex_, st, fr, callee, args):
        a, b = val_of(ex_, st, args[0]), val_of(ex_, st, args[1])
        (s1, e1), (s2, e2) = rng(ex_, st, a), rng(ex_, st, b)
        return mk_bs(ex_, "append(%s,%s)" % (ident(ex_, st, a), ident(ex_, st, b)), (e1 - s1) + (e2 - s2))

    def same_len(tag):
        def f(ex_, st, fr, callee, args):
            a = val_of(ex_, st, args[0])
            s1, e1 = rng(ex_, st, a)
            return mk_bs(ex_, "%s(%s)" % (tag, ident(ex_, st, a)), e1 - s1)
        return f

    def optional(tag, cond_fn, ret_ty):
        def f(ex_, st, fr, callee, args):
            a = val_of(ex_, st, args[0])
            s1, e1 = rng(ex_, st, a)
            c = z3.simplify(cond_fn(s1, e1))
            can_t, can_f = ex_.feasible(st, c), ex_.feasible(st, z3.Not(c))
            if can_t and can_f:
                from e2.summaries import raise_fork
                raise_fork([(c, None, tag + " some"), (z3.Not(c), None, tag + " none")])
            oty = "Option<%s>" % ret_ty
            if not can_t:
                return Enum(oty, "None", None)
            v = Opaque(ret_ty, z3.Const("%s(%s)" % (tag, ident(ex_, st, a)), opaque_sort(ret_ty)))
            return Enum(oty, "Some", Struct(oty + "::Some", {0: v}))
        return f

    def from_int(ex_, st, fr, callee, args):
        n = args[1]
        return mk_bs(ex_, "from_int(%s,%s,%s)" % (canon(ex_, args[0]), canon(ex_, n), canon(ex_, args[2])), n.t)

    def from_float(bits):
        def f(ex_, st, fr, callee, args):
            return mk_bs(ex_, "from_f%d(%s,%s)" % (bits, canon(ex_, args[0]), canon(ex_, args[1])), z3.BitVecVal(bits, 64))
        return f
    byte_multiple = lambda s, e: z3.URem(e - s, z3.BitVecVal(8, 64)) == 0
    aligned = lambda s, e: z3.And(z3.URem(s, z3.BitVecVal(8, 64)) == 0, z3.URem(e - s, z3.BitVecVal(8, 64)) == 0)
    o = ex.overrides
    o[r"bitstr::.*::append$|Bitstr::append$"] = append
    o[r"bitstr::.*::detach$|Bitstr::detach$"] = same_len("detach")
    o[r"bitstr::.*::invert$|Bitstr::invert$"] = same_len("invert")
    o[r"bitstr::.*::bytestr$|Bitstr::bytestr$"] = optional("bytestr", byte_multiple, "std::borrow::Cow<[u8]>")
    o[r"bitstr::.*::to_bytes$|Bitstr::to_bytes$"] = optional("to_bytes", byte_multiple, "std::vec::Vec<u8>")
    o[r"bitstr::.*::slice$|Bitstr::slice$"] = optional("slice", aligned, "&[u8]")

    def padded(ex_, st, fr, callee, args):
        a = val_of(ex_, st, args[0])
        return Opaque("std::vec::Vec<u8>", z3.Const("to_bytes_with_padding(%s)" % ident(ex_, st, a), opaque_sort("std::vec::Vec<u8>")))
    o[r"bitstr::.*::to_bytes_with_padding$|Bitstr::to_bytes_with_padding$"] = padded
    o[r"bitstr::.*::from_int$|Bitstr::from_int$"] = from_int
    o[r"bitstr::.*::from_f32$|Bitstr::from_f32$"] = from_float(32)
    o[r"bitstr::.*::from_f64$|Bitstr::from_f64$"] = from_float(64)
    o[r"write_to_stdout$"] = lambda ex_, st, fr, c, a: Enum("Result<(), error::Xerr>", "Ok", Struct("", {0: Unit()}))
