"""Summaries of functions outside the crate (std / rpds / arcstr ...): the trusted base of mirsym.
Each summary states the exact panic condition of the real function where it has one.
Every summary used by a run is recorded in Executor.summaries_used and lands in the evidence."""
import re
import z3
from e2.values import *


class Multi:
    """A summary result that continues on several paths: [(state, value)]"""

    def __init__(self, alts):
        self.alts = alts


def norm(name):
    n = name.strip()
    # drop generic argument lists  ::<...>
    out = []
    i = 0
    while i < len(n):
        if n.startswith("::<", i):
            depth = 0
            j = i + 2
            while j < len(n):
                if n[j] == "<":
                    depth += 1
                elif n[j] == ">" and n[j - 1] not in "-=":
                    depth -= 1
                    if depth == 0:
                        break
                j += 1
            i = j + 1
            continue
        out.append(n[i])
        i += 1
    return "".join(out)


class Summaries:
    def __init__(self, ex):
        self.ex = ex
        from e2.strmodel import StrSummaries
        self.strs = StrSummaries(self)

    # ------------------------------------------------------------ helpers
    def variant_of(self, st, v, what="enum"):
        """Concrete variant name of an Enum value held by value (not in memory): fork on the discriminant."""
        ex = self.ex
        if not isinstance(v, Enum):
            raise Unsupported("%s: expected enum, got %r" % (what, v))
        if v.variant is not None:
            return v.variant
        feas = []
        for var in ex.enum_variants(v.ty):
            d = ex.enum_index(v.ty, var)
            if ex.feasible(st, v.discr == z3.BitVecVal(d, 64)):
                feas.append((var, d))
        if len(feas) == 1:
            v.variant = feas[0][0]
            return v.variant
        if not feas:
            raise Unsupported("no feasible variant")
        raise_fork([(v.discr == z3.BitVecVal(d, 64), None, "%s=%s" % (v.origin, var)) for var, d in feas])

    def payload(self, v, idx, ty):
        if v.payload is None:
            v.payload = Struct(v.ty + "::" + v.variant, {}, origin=(v.origin + "." + v.variant) if v.origin else None)
        if idx not in v.payload.fields:
            if v.payload.origin is None:
                raise Unsupported("payload field %s of %s::%s unset" % (idx, v.ty, v.variant))
            v.payload.fields[idx] = mk_sym(self.ex.tc, ty, "%s.%s" % (v.payload.origin, idx))
        return v.payload.fields[idx]

    def ty_args(self, ty):
        return split_generic(strip_ty(ty))[1]

    def mk_enum(self, ty, variant, *vals):
        return Enum(ty, variant, Struct(ty + "::" + variant, {i: v for i, v in enumerate(vals)}) if vals else None)

    def option(self, inner_ty, val=None):
        ty = "Option<%s>" % inner_ty
        return self.mk_enum(ty, "Some", val) if val is not None else self.mk_enum(ty, "None")

    def run_closure(self, st, f, args):
        """Run a crate closure / fn value to completion; returns [(state, value)], panics become side outcomes."""
        ex = self.ex
        if isinstance(f, Ref):
            f = ex.get_at(st, f.box, f.path)
        if not isinstance(f, FnVal):
            raise Unsupported("call of %r" % (f,))
        name = f.name
        if name.startswith("{closure@"):
            fn = ex.find_closure(name)
            cargs = ex.closure_self(fn, [f] + list(args))
        else:
            fn = ex.resolve(name, args)
            cargs = list(args)
            if fn is None:
                v = self.call(st, st.frames[-1], name, cargs, None)
                if isinstance(v, Multi):
                    return v.alts
                return [(st, v)]
        if len(fn.params) != len(cargs):
            # FnOnce-style closures receive (env, args...) ; a closure without captures still has the env param
            raise Unsupported("closure arity %s: %d vs %d" % (fn.name, len(fn.params), len(cargs)))
        ex.push_frame(st, fn, cargs, None, None)
        outs = ex.run_state(st)
        res = []
        for o in outs:
            if o.kind == "return":
                res.append((o.st, o.value))
            else:
                ex._side.append(o)
        return res

    def run_fn(self, st, fn, args):
        ex = self.ex
        ex.push_frame(st, fn, list(args), None, None)
        outs = ex.run_state(st)
        res = []
        for o in outs:
            if o.kind == "return":
                res.append((o.st, o.value))
            else:
                ex._side.append(o)
        return res

    def deref_val(self, st, r):
        if isinstance(r, Ref):
            return self.ex.get_at(st, r.box, r.path)
        return r

    def int_ty_of(self, name):
        m = re.search(r"<impl (i8|i16|i32|i64|i128|isize|u8|u16|u32|u64|u128|usize)>", name)
        return m.group(1) if m else None

    # ------------------------------------------------------------ dispatcher
    def call(self, st, fr, name, args, argops):
        ex = self.ex
        n = norm(name)
        ex.summaries_used.add(n)
        A = args

        # ---------- modelled texts (symbolic character sequences) take precedence over the opaque string summaries
        from e2.strmodel import NotHandled
        r = self.strs.call(st, fr, n, name, A)
        if r is not NotHandled:
            return r

        # ---------- ? operator plumbing
        m = re.match(r"^<(Result|Option)<.*> as Try>::branch$", n) or re.match(r"^<(std::result::Result|std::option::Option)<.*> as Try>::branch$", n)
        if m:
            r = A[0]
            var = self.variant_of(st, r, "Try::branch")
            sty = strip_ty(name[1:name.index(" as Try>")])
            targs = self.ty_args(sty)
            if var in ("Ok", "Some"):
                v = self.payload(r, 0, targs[0] if targs else "?")
                return self.mk_enum("ControlFlow<R, %s>" % (targs[0] if targs else "?"), "Continue", v)
            if var == "Err":
                e = self.payload(r, 0, targs[1])
                res = self.mk_enum("Result<Infallible, %s>" % targs[1], "Err", e)
                return self.mk_enum("ControlFlow<R,C>", "Break", res)
            res = self.mk_enum("Option<Infallible>", "None")
            return self.mk_enum("ControlFlow<R,C>", "Break", res)
        m = re.match(r"^<(?:std::result::)?Result<(.*)> as FromResidual<(?:std::result::)?Result<.*>>>::from_residual$", n)
        if m:
            r = A[0]
            var = self.variant_of(st, r, "from_residual")
            ety = self.ty_args("Result<" + m.group(1) + ">")[1]
            e = self.payload(r, 0, ety)
            return self.mk_enum("Result<%s>" % m.group(1), "Err", e)
        if re.match(r"^<(?:std::option::)?Option<.*> as FromResidual<(?:std::option::)?Option<.*>>>::from_residual$", n):
            return self.mk_enum(strip_ty(name[1:name.index(" as FromResidual")]), "None")

        # ---------- checked integer conversions
        m = re.match(r"^<(i8|i16|i32|i64|i128|isize|u8|u16|u32|u64|u128|usize) as TryFrom<(i8|i16|i32|i64|i128|isize|u8|u16|u32|u64|u128|usize)>>::try_from$", n)
        if m:
            a = A[0]
            db, ds = INT_TYPES[m.group(1)]
            lo = -(1 << (db - 1)) if ds else 0
            hi = (1 << (db - 1)) - 1 if ds else (1 << db) - 1
            w = a.bits
            conds = []
            # value range of the source as signed/unsigned integer
            src_lo = -(1 << (w - 1)) if a.signed else 0
            src_hi = (1 << (w - 1)) - 1 if a.signed else (1 << w) - 1
            if lo > src_lo:
                conds.append((a.t >= z3.BitVecVal(lo, w)) if a.signed else z3.UGE(a.t, z3.BitVecVal(lo, w)))
            if hi < src_hi:
                conds.append((a.t <= z3.BitVecVal(hi, w)) if a.signed else z3.ULE(a.t, z3.BitVecVal(hi, w)))
            fits = z3.And(*conds) if conds else z3.BoolVal(True)
            if db <= w:
                val = Int(z3.Extract(db - 1, 0, a.t), db, ds)
            else:
                val = Int((z3.SignExt if a.signed else z3.ZeroExt)(db - w, a.t), db, ds)
            c = z3.simplify(fits)
            can_ok, can_err = ex.feasible(st, c), ex.feasible(st, z3.Not(c))
            rty = "Result<%s, std::num::TryFromIntError>" % m.group(1)
            if can_ok and can_err:
                raise_fork([(c, None, "fits"), (z3.Not(c), None, "out of range")])
            if can_ok:
                return self.mk_enum(rty, "Ok", val)
            return self.mk_enum(rty, "Err", Opaque("TryFromIntError", z3.Const("TryFromIntError", opaque_sort("TryFromIntError"))))
        # ---------- conversions that are the identity on the model
        if re.match(r"^<.* as (Into|From)<.*>>::(into|from)$", n) and len(A) == 1:
            m2 = re.match(r"^<(.*) as From<(.*)>>::from$", n)
            m3 = re.match(r"^<(.*) as Into<(.*)>>::into$", n)
            src, dst = (m2.group(2), m2.group(1)) if m2 else (m3.group(1), m3.group(2))
            if strip_ty(src) == strip_ty(dst):
                return A[0]
            if re.match(r"^(std::rc::)?Rc<|^(std::boxed::)?Box<", strip_ty(dst)):
                return Ref(Box(A[0], name=ex.fresh_name("heap")))
            if strip_ty(dst) in ("ArcStr", "arcstr::ArcStr") or strip_ty(dst).endswith("String"):
                return self.opaque_fn("str_conv", [A[0]], strip_ty(dst))
            if "Cow<" in dst:
                return self.mk_enum("Cow<[u8]>", "Owned", A[0])
            raise Unsupported("conversion " + n)
        if re.match(r"^<.* as Clone>::clone$", n) or n.endswith("::cloned") and False:
            v = self.deref_val(st, A[0])
            return clone_val(v)
        if re.match(r"^<.* as (Deref|DerefMut|AsRef<.*>|Borrow<.*>)>::(deref|deref_mut|as_ref|borrow)$", n):
            r = A[0]
            v = self.deref_val(st, r)
            if isinstance(v, Ref):          # &Rc<T> / &Box<T> -> &T
                return Ref(v.box, v.path)
            return r                         # &Vec<T> -> &[T]; &String -> &str; opaque stays opaque
        if n in ("std::mem::drop", "drop", "core::mem::drop", "must_use", "std::hint::black_box"):
            return A[0] if n == "must_use" else Unit()
        if n in ("std::mem::swap", "core::mem::swap"):
            a, b = A
            va, vb = ex.get_at(st, a.box, a.path), ex.get_at(st, b.box, b.path)
            ex.set_at(st, a.box, a.path, vb)
            ex.set_at(st, b.box, b.path, va)
            return Unit()
        if n in ("std::mem::replace", "core::mem::replace"):
            a, v = A
            old = ex.get_at(st, a.box, a.path)
            ex.set_at(st, a.box, a.path, v)
            return old
        if n in ("std::mem::take", "core::mem::take"):
            raise Unsupported("mem::take")

        # ---------- Default
        m = re.match(r"^<(.*) as Default>::default$", n)
        if m:
            return self.default_of(st, m.group(1))
        # unknown struct-like aggregates of external crates are built by the executor as opaque records

        # ---------- Option / Result combinators
        m = re.match(r"^(?:std::option::)?Option::(\w+)$", n) or re.match(r"^(?:std::result::)?Result::(\w+)$", n)
        if m:
            return self.opt_res(st, fr, n, name, m.group(1), A)

        # ---------- comparisons through references
        m = re.match(r"^<(.*) as PartialEq(?:<(.*)>)?>::(eq|ne)$", n)
        if m:
            a, b = self.deref_val(st, A[0]), self.deref_val(st, A[1])
            while isinstance(a, Ref):
                a = self.deref_val(st, a)
            while isinstance(b, Ref):
                b = self.deref_val(st, b)
            e = self.values_eq(st, a, b, m.group(1))
            return Bool(e if m.group(3) == "eq" else z3.Not(e))
        m = re.match(r"^<(.*) as PartialOrd(?:<.*>)?>::partial_cmp$", n)
        if m:
            a, b = self.deref_val(st, A[0]), self.deref_val(st, A[1])
            while isinstance(a, Ref):
                a = self.deref_val(st, a)
            while isinstance(b, Ref):
                b = self.deref_val(st, b)
            oty = "Option<std::cmp::Ordering>"
            if isinstance(a, Int):
                return self.mk_enum(oty, "Some", ex.int_binop(st, "Cmp", a, b))
            if isinstance(a, Float):
                un = z3.Or(z3.fpIsNaN(a.t), z3.fpIsNaN(b.t))
                cu, co = ex.feasible(st, un), ex.feasible(st, z3.Not(un))
                if cu and co:
                    raise_fork([(un, None, "unordered"), (z3.Not(un), None, "ordered")])
                if cu:
                    return self.mk_enum(oty, "None")
                d = z3.If(z3.fpLT(a.t, b.t), z3.BitVecVal(-1, 64), z3.If(z3.fpGT(a.t, b.t), z3.BitVecVal(1, 64), z3.BitVecVal(0, 64)))
                return self.mk_enum(oty, "Some", ex.ordering_from_term(st, d))
            if isinstance(a, Opaque) and isinstance(b, Opaque) and a.term.sort() == b.term.sort():
                # an uninterpreted total order on opaque values (strings): cmp == 0 iff equal, antisymmetric
                f = z3.Function("ord_" + re.sub(r"[^A-Za-z0-9_]", "_", str(a.term.sort())), a.term.sort(), a.term.sort(), z3.BitVecSort(64))
                d, dr = f(a.term, b.term), f(b.term, a.term)
                one, mone, zero = z3.BitVecVal(1, 64), z3.BitVecVal(-1, 64), z3.BitVecVal(0, 64)
                ax = z3.And(z3.Or(d == one, d == mone, d == zero), (d == zero) == (a.term == b.term), dr == -d)
                if ax not in ex.tc.assumptions:
                    ex.tc.assumptions.append(ax)
                return self.mk_enum(oty, "Some", ex.ordering_from_term(st, d))
            raise Unsupported("partial_cmp on %r" % (a,))
        m = re.match(r"^<(i128|isize|usize|u8|u32|u64|i64|i32) as Ord>::(cmp|min|max)$", n)
        if m:
            a, b = self.deref_val(st, A[0]), self.deref_val(st, A[1])
            if m.group(2) == "cmp":
                return ex.int_binop(st, "Cmp", a, b)
            lt = (a.t < b.t) if a.signed else z3.ULT(a.t, b.t)
            if m.group(2) == "min":
                return Int(z3.If(lt, a.t, b.t), a.bits, a.signed)
            return Int(z3.If(lt, b.t, a.t), a.bits, a.signed)
        m = re.match(r"^(?:std::cmp::)?Ordering::is_(lt|le|gt|ge|eq|ne)$", n)
        if m:
            o = A[0]
            var = self.variant_of(st, o)
            d = {"Less": -1, "Equal": 0, "Greater": 1}[var]
            r = {"lt": d < 0, "le": d <= 0, "gt": d > 0, "ge": d >= 0, "eq": d == 0, "ne": d != 0}[m.group(1)]
            return Bool(z3.BoolVal(r))

        # ---------- integer / float methods
        r = self.num_method(st, n, name, A)
        if r is not None:
            return r

        # ---------- Vec / slice on the stack model
        r = self.vec_method(st, fr, n, name, A)
        if r is not None:
            return r

        # ---------- Range<T>
        r = self.range_method(st, n, name, A)
        if r is not None:
            return r

        # ---------- rpds persistent vector (same model as Vec, every operation returns a copy)
        m = re.match(r"^(?:rpds::)?Vector::(\w+)$", n)
        if m:
            r = self.pvec(st, m.group(1), A, name)
            if r is not None:
                return r
        if re.match(r"^<(?:rpds::)?Vector<.*> as Default>::default$", n):
            return Vec("cell::Cell", None, [])
        # ---------- rpds persistent map: opaque, results over-approximated (any value)
        m = re.match(r"^(?:rpds::)?RedBlackTreeMap::(\w+)$", n)
        if m:
            return self.pmap(st, m.group(1), A, name)
        if re.match(r"^<Map<rpds::vector::IterPtr<.*> as IntoIterator>::into_iter$", n):
            return A[0]
        m = re.match(r"^<Map<rpds::vector::IterPtr<.*> as Iterator>::(nth|next)$", n)
        if m:
            itv = self.deref_val(st, A[0]) if isinstance(A[0], Ref) else A[0]
            if isinstance(itv, Struct) and itv.ty == "SliceIter":
                return self.slice_iter(st, n, m.group(1), A)
        m = re.match(r"^<Map<rpds::map::red_black_tree_map::IterPtr<.*> as Iterator>::(nth)$", n)
        if m:
            it = self.deref_val(st, A[0]) if isinstance(A[0], Ref) else A[0]
            if isinstance(it, Struct) and it.ty == "PMapIter":
                # the n-th entry in key order of a map whose order is not modelled: present or absent, any entry
                # (deterministic in map identity and index, so relational lemmas see the same entry twice)
                tagn = "%s[%s]" % (canon(ex, it.fields[0]), z3.simplify(A[1].t))
                has = z3.Bool("mapiter_has!" + tagn)
                ch, cn = ex.feasible(st, has), ex.feasible(st, z3.Not(has))
                oty = "Option<(&cell::Cell, &cell::Cell)>"
                if ch and cn:
                    raise_fork([(has, None, "entry present"), (z3.Not(has), None, "entry absent")])
                if not ch:
                    return self.option("(&cell::Cell, &cell::Cell)")
                k = mk_sym(ex.tc, "cell::Cell", "mapiter_key!" + tagn)
                v = mk_sym(ex.tc, "cell::Cell", "mapiter_val!" + tagn)
                return self.mk_enum(oty, "Some", Tuple([Ref(Box(k, name="mapiter_k!" + tagn)), Ref(Box(v, name="mapiter_v!" + tagn))]))
        # ---------- short-circuit predicates over slice iterators (closure must evaluate without forking)
        m = re.match(r"^<(Rev<)?(?:std::slice::)?Iter(?:Mut)?<.*>>? as Iterator>::(any|all|position|find_map|find)::<", name.strip()) if False else \
            re.match(r"^<(Rev<)?(?:std::slice::)?Iter(?:Mut)?<.*?>>? as Iterator>::(any|all|find_map)$", n)
        if m:
            it = A[0]
            itv = self.deref_val(st, it) if isinstance(it, Ref) else it
            want = m.group(2)
            result = (want == "all")
            while True:
                o = self.slice_iter(st, n, "next", [itv])
                if self.variant_of(st, o) == "None":
                    break
                elem = o.payload.fields[0]
                alts = self.run_closure(st, A[1], [elem])
                if len(alts) != 1 or alts[0][0] is not st:
                    raise Unsupported("iterator predicate closure forked")
                if want == "find_map":
                    r_ = alts[0][1]
                    if self.variant_of(st, r_) == "Some":
                        return r_
                    continue
                v = z3.simplify(alts[0][1].t)
                if not (z3.is_true(v) or z3.is_false(v)):
                    raise Unsupported("iterator predicate with a symbolic result")
                if want == "any" and z3.is_true(v):
                    result = True
                    break
                if want == "all" and z3.is_false(v):
                    result = False
                    break
            if want == "find_map":
                return self.option("?")
            return Bool(z3.BoolVal(result))
        # ---------- for x in &slice / &vec
        if re.match(r"^<&(?:mut )?\[.*\] as IntoIterator>::into_iter$", n) or re.match(r"^<&(?:mut )?(?:std::vec::)?Vec<.*> as IntoIterator>::into_iter$", n):
            return Struct("SliceIter", {0: A[0], 1: 0, 2: 0})
        # ---------- slice iterators over the explicit part of a vector
        m = re.match(r"^<(?:std::slice::)?Iter(?:Mut)?<.*> as (?:Iterator|DoubleEndedIterator|IntoIterator)>::(next|next_back|nth|nth_back|rev|into_iter)$", n) or \
            re.match(r"^<Rev<(?:std::slice::)?Iter(?:Mut)?<.*>> as (?:Iterator|IntoIterator)>::(next|nth|into_iter)$", n)
        if m:
            return self.slice_iter(st, n, m.group(1), A)
        # ---------- Rc
        if n in ("Rc::new", "std::rc::Rc::new", "Box::new", "std::boxed::Box::new"):
            return Ref(Box(A[0], name=ex.fresh_name("heap")))
        if n in ("Rc::strong_count", "std::rc::Rc::strong_count"):
            return Int(z3.BitVec(ex.fresh_name("strong_count"), 64), 64, False)

        # ---------- panics
        if n in ("panic", "core::panicking::panic", "std::rt::begin_panic", "panic_fmt", "core::panicking::panic_fmt",
                 "core::panicking::panic_bounds_check", "panic_bounds_check", "core::option::unwrap_failed",
                 "core::result::unwrap_failed", "core::panicking::panic_explicit", "unreachable_display", "panic_display",
                 "core::panicking::unreachable_display", "std::process::abort", "core::option::expect_failed"):
            from e2.symex import Panic
            raise Panic("panic", n + " " + " ".join(repr(a)[:80] for a in A[:1]))

        # ---------- formatting: produces opaque strings; never the subject of an E2 lemma
        if n == "format" or n.endswith("fmt::format") or n.startswith("core::fmt::rt::Argument::") or n.startswith("Arguments::") \
                or n.startswith("core::fmt::Arguments::") or n.startswith("std::fmt::Arguments::"):
            # named after the call site (function + block), so two runs of the same code produce the same opaque text
            site = "%s@%s" % (re.sub(r"[^A-Za-z0-9_]", "_", fr.fn.name)[-60:], fr.bb) if fr is not None else None
            return self.opaque_fn(n.replace(":", "_"), A, "std::string::String" if n.endswith("format") else "fmt_arg", site=site)

        # ---------- pure, non-panicking str/String observers and builders: uninterpreted
        m = re.match(r"^core::str::(?:<impl str>::)?(len|as_bytes|is_empty|chars|char_indices|as_ptr|trim|bytes|to_owned|to_string)$", n)
        if m:
            rt = {"len": "usize", "is_empty": "bool", "as_bytes": "&[u8]", "chars": "Chars", "char_indices": "CharIndices"}.get(m.group(1), "&str")
            return self.opaque_fn("str_" + m.group(1), A, rt)
        if re.match(r"^(?:std::string::)?String::(into_bytes|into_boxed_str)$", n) or n in ("<ArcStr as ToString>::to_string", "<str as ToString>::to_string", "<Substr as ToString>::to_string"):
            a = A[0]
            while isinstance(a, Ref):
                a = ex.get_at(st, a.box, a.path)
            if n.endswith("into_bytes"):
                nm = "bytes(%s)" % canon(ex, a)
                ax = z3.ULE(z3.BitVec(nm + ".len", 64), z3.BitVecVal(1 << 40, 64))
                if ax not in ex.tc.assumptions:
                    ex.tc.assumptions.append(ax)
                return mk_sym(ex.tc, "std::vec::Vec<u8>", nm)
            return Opaque("String", z3.Const("to_string(%s)" % canon(ex, a), opaque_sort("String")))
        m = re.match(r"^(?:std::string::)?String::(new|with_capacity|push_str|push|clear|len|as_str|is_empty)$", n)
        if m:
            meth = m.group(1)
            if meth in ("new", "with_capacity"):
                return Opaque("String", z3.Const(ex.fresh_name("string"), opaque_sort("String")))
            if meth in ("push_str", "push", "clear"):
                # in-place edit of an opaque buffer: the buffer becomes a fresh opaque string
                r0 = A[0]
                ex.set_at(st, r0.box, r0.path, Opaque("String", z3.Const(ex.fresh_name("string"), opaque_sort("String"))))
                return Unit()
            return self.opaque_fn("String_" + meth, A, {"len": "usize", "is_empty": "bool"}.get(meth, "&str"))
        # ---------- string-ish opaque operations (uninterpreted, functional)
        for pfx, rty in (("ArcStr::", "ArcStr"), ("Substr::", "Substr"), ("String::", "String")):
            if n.startswith(pfx) or n.startswith("arcstr::" + pfx):
                meth = n.split("::")[-1]
                if meth in ("as_str", "substr", "parent", "range", "len", "is_empty", "to_string", "from", "new"):
                    rt = {"len": "usize", "is_empty": "bool", "as_str": "&str", "parent": "&ArcStr", "new": "String"}.get(meth, rty)
                    return self.opaque_fn("%s_%s" % (rty, meth), A, rt)

        raise Unsupported("no summary for external callee `%s`" % name)

    # ------------------------------------------------------------ pieces
    def opaque_fn(self, fname, args, ret_ty, site=None):
        """Uninterpreted function application: deterministic in its arguments' terms."""
        ex = self.ex
        terms = []
        for a in args:
            a = a
            while isinstance(a, Ref):
                a = ex.get_at(None, a.box, a.path)
            if isinstance(a, (Int, Bool, Float, Opaque)):
                terms.append(a.t if not isinstance(a, Opaque) else a.term)
            elif isinstance(a, Unit):
                continue
            else:
                # structured argument: fresh result (no functional consistency claimed)
                return mk_sym(ex.tc, ret_ty, ("uf_%s!%s" % (fname, site)) if site else ex.fresh_name("uf_" + fname))
        k, info = ex.tc.kind(ret_ty)
        if k == "int":
            rs = z3.BitVecSort(info[0])
        elif k == "bool":
            rs = z3.BoolSort()
        else:
            rs = opaque_sort(strip_ty(ret_ty))
        f = z3.Function("uf_" + re.sub(r"[^A-Za-z0-9_]", "_", fname) + "_%d" % len(terms), *([t.sort() for t in terms] + [rs]))
        t = f(*terms) if terms else z3.Const("uf_" + fname, rs)
        if k == "int":
            return Int(t, info[0], info[1])
        if k == "bool":
            return Bool(t)
        return Opaque(strip_ty(ret_ty), t)

    def values_eq(self, st, a, b, ty):
        ex = self.ex
        if isinstance(a, Float) and isinstance(b, Float):
            return z3.fpEQ(a.t, b.t)
        if isinstance(a, Enum) and isinstance(b, Enum):
            # derive(PartialEq) on fieldless / simple enums
            va, vb = self.variant_of(st, a), self.variant_of(st, b)
            if va != vb:
                return z3.BoolVal(False)
        from e2.symex import veq
        return veq(ex, a, b)

    def default_of(self, st, ty):
        ex = self.ex
        k, info = ex.tc.kind(ty)
        if k == "int":
            return Int(z3.BitVecVal(0, info[0]), info[0], info[1])
        if k == "bool":
            return Bool(z3.BoolVal(False))
        if k == "vec":
            return Vec(info, None, [])
        if k == "enum" and info[0] == "Option":
            return self.mk_enum(strip_ty(ty), "None")
        if strip_ty(ty) in ("cell::CellRef", "CellRef"):
            return Struct("cell::CellRef", {0: Int(z3.BitVecVal((1 << 64) - 1, 64), 64, False)})
        if "rpds::Vector" in ty or ty.startswith("Vector<"):
            return Opaque(strip_ty(ty), z3.Const("pvec_empty", opaque_sort(strip_ty(ty))))
        if k == "opaque":
            return Opaque(strip_ty(ty), z3.Const("default!" + strip_ty(ty)[:40], opaque_sort(strip_ty(ty))))
        if k in ("struct", "enum"):
            fn = ex.resolve("<%s as Default>::default" % strip_ty(ty), [])
            if fn is not None:
                alts = self.run_fn(st, fn, [])
                return Multi(alts)
        raise Unsupported("Default for " + ty)

    def opt_res(self, st, fr, n, name, meth, A):
        ex = self.ex
        recv = A[0]
        by_ref = isinstance(recv, Ref)
        o = self.deref_val(st, recv) if by_ref else recv
        var = self.variant_of(st, o, n)
        oty = strip_ty(o.ty)
        targs = self.ty_args(oty) or ["?", "?"]
        is_opt = base_name(split_generic(oty)[0]) == "Option"
        good = var in ("Some", "Ok")
        val = self.payload(o, 0, targs[0] if good or is_opt else targs[1]) if (good or var == "Err") else None

        def many(alts, wrap):
            return Multi([(s2, wrap(v)) for s2, v in alts])

        from e2.symex import Panic
        if meth in ("unwrap", "expect"):
            if good:
                return val
            raise Panic("unwrap", "called `%s` on a `%s` value" % (n, var))
        if meth in ("is_some", "is_ok"):
            return Bool(z3.BoolVal(good))
        if meth in ("is_none", "is_err"):
            return Bool(z3.BoolVal(not good))
        if meth == "unwrap_or":
            return val if good else A[1]
        if meth == "unwrap_or_default":
            if good:
                return val
            inner = targs[0]
            mt = re.match(r"^(?:std::option::)?Option::<(.*)>::unwrap_or_default$", name.strip())
            if mt and (inner == "?" or ex.tc.kind(inner)[0] == "opaque"):
                inner = mt.group(1)
            return self.default_of(st, inner)
        if meth == "unwrap_or_else":
            if good:
                return val
            return Multi(self.run_closure(st, A[1], [] if is_opt else [val]))
        if meth == "ok_or":
            if good:
                return self.mk_enum("Result<%s, E>" % targs[0], "Ok", val)
            return self.mk_enum("Result<%s, E>" % targs[0], "Err", A[1])
        if meth == "ok_or_else":
            if good:
                return self.mk_enum("Result<%s, E>" % targs[0], "Ok", val)
            return many(self.run_closure(st, A[1], []), lambda e: self.mk_enum("Result<%s, E>" % targs[0], "Err", e))
        if meth == "ok":
            return self.option(targs[0], val) if good else self.option(targs[0])
        if meth == "filter" and is_opt:
            if not good:
                return o
            alts = self.run_closure(st, A[1], [Ref(Box(val, name=ex.fresh_name("filter_arg")))])
            outs = []
            for s2, keep in alts:
                kt = z3.simplify(keep.t)
                if z3.is_true(kt):
                    outs.append((s2, o))
                elif z3.is_false(kt):
                    outs.append((s2, self.option(targs[0])))
                else:
                    ck, cd = ex.feasible(s2, kt), ex.feasible(s2, z3.Not(kt))
                    if ck and cd:
                        s3 = s2.fork()
                        s2.pc.append(kt)
                        s3.pc.append(z3.Not(kt))
                        outs += [(s2, o), (s3, self.option(targs[0]))]
                    else:
                        outs.append((s2, o if ck else self.option(targs[0])))
            return Multi(outs)
        if meth == "map":
            if not good:
                if is_opt:
                    return self.option("?")
                return self.mk_enum("Result<U, %s>" % targs[1], "Err", val)
            return many(self.run_closure(st, A[1], [val]), lambda v: self.option("?", v) if is_opt else self.mk_enum("Result<U,E>", "Ok", v))
        if meth == "map_err":
            if good:
                return self.mk_enum("Result<%s, F>" % targs[0], "Ok", val)
            return many(self.run_closure(st, A[1], [val]), lambda e: self.mk_enum("Result<%s, F>" % targs[0], "Err", e))
        if meth == "and_then":
            if not good:
                return self.option("?") if is_opt else self.mk_enum("Result<U,E>", "Err", val)
            return Multi(self.run_closure(st, A[1], [val]))
        if meth == "or_else":
            if good:
                return o
            return Multi(self.run_closure(st, A[1], [] if is_opt else [val]))
        if meth in ("as_ref", "as_mut"):
            if not good:
                return self.option("&" + targs[0])
            # reference to the payload inside the receiver
            self.payload(o, 0, targs[0])
            r = Ref(recv.box, recv.path + (("v", "Some"), ("f", 0, targs[0])), meth == "as_mut")
            return self.option("&" + targs[0], r)
        if meth == "cloned" or meth == "copied":
            if not good:
                return self.option("?")
            return self.option("?", clone_val(self.deref_val(st, val)))
        if meth == "take":
            ex.set_at(st, recv.box, recv.path, self.option(targs[0]))
            return o
        raise Unsupported("Option/Result method " + n)

    def num_method(self, st, n, name, A):
        ex = self.ex
        m = re.search(r"(?:^|::)(?:num::)?(?:<impl [a-z0-9]+>::)?(wrapping_add|wrapping_sub|wrapping_mul|wrapping_div|wrapping_rem|wrapping_neg|wrapping_shl|wrapping_shr|"
                      r"checked_neg|checked_abs|checked_add|checked_sub|checked_mul|checked_div|checked_rem|abs|unsigned_abs|count_ones|overflowing_shl|overflowing_shr|"
                      r"min|max|pow|leading_zeros|trailing_zeros|is_power_of_two|saturating_sub|saturating_add|from_le_bytes|from_be_bytes|to_le_bytes|to_be_bytes|to_ne_bytes|swap_bytes)$", n)
        if m and A and isinstance(A[0], Int) and ("num::" in n or "<impl" in n or re.match(r"^(core|std)::", n) or n.startswith("arcstr::core")):
            op = m.group(1)
            a = A[0]
            w, s = a.bits, a.signed
            b = A[1] if len(A) > 1 else None
            from e2.symex import Panic
            if op in ("wrapping_add", "wrapping_sub", "wrapping_mul"):
                return ex.int_binop(st, {"wrapping_add": "Add", "wrapping_sub": "Sub", "wrapping_mul": "Mul"}[op], a, b)
            if op in ("wrapping_rem", "wrapping_div"):
                # std: panics if rhs == 0; MIN op -1 wraps (rem -> 0, div -> MIN)
                if ex.feasible(st, b.t == 0):
                    s2 = st.fork()
                    s2.pc.append(b.t == 0)
                    from e2.symex import Outcome
                    ex._side.append(Outcome("panic", s2, msg="%s: attempt to calculate with a divisor of zero" % op, where=n))
                    if not ex.feasible(st, b.t != 0):
                        raise_dead()
                    st.pc.append(b.t != 0)
                if op == "wrapping_rem":
                    r = z3.If(b.t == z3.BitVecVal(-1, w), z3.BitVecVal(0, w), z3.SRem(a.t, b.t)) if s else z3.URem(a.t, b.t)
                else:
                    r = (a.t / b.t) if s else z3.UDiv(a.t, b.t)     # bvsdiv wraps MIN / -1 to MIN
                return Int(r, w, s)
            if op == "wrapping_neg":
                return Int(-a.t, w, s)
            if op in ("wrapping_shl", "wrapping_shr"):
                return ex.int_binop(st, "Shl" if op.endswith("shl") else "Shr", a, b)
            if op in ("overflowing_shl", "overflowing_shr"):
                r = ex.int_binop(st, "Shl" if op.endswith("shl") else "Shr", a, b)
                return Tuple([r, Bool(z3.UGE(b.t, z3.BitVecVal(w, b.bits)))])
            if op == "checked_neg":
                ov = (a.t == z3.BitVecVal(-(1 << (w - 1)), w)) if s else (a.t != 0)
                return self.sym_option(st, "Option<%s>" % self.tyname(a), z3.Not(ov), Int(-a.t, w, s))
            if op == "checked_abs":
                ov = a.t == z3.BitVecVal(-(1 << (w - 1)), w)
                return self.sym_option(st, "Option<%s>" % self.tyname(a), z3.Not(ov), Int(z3.If(a.t < 0, -a.t, a.t), w, s))
            if op in ("checked_add", "checked_sub", "checked_mul"):
                t = ex.int_binop(st, {"checked_add": "AddWithOverflow", "checked_sub": "SubWithOverflow", "checked_mul": "MulWithOverflow"}[op], a, b)
                return self.sym_option(st, "Option<%s>" % self.tyname(a), z3.Not(t.items[1].t), t.items[0])
            if op in ("checked_div", "checked_rem"):
                bad = b.t == 0
                if s:
                    bad = z3.Or(bad, z3.And(a.t == z3.BitVecVal(-(1 << (w - 1)), w), b.t == z3.BitVecVal(-1, w)))
                r = ((a.t / b.t) if s else z3.UDiv(a.t, b.t)) if op == "checked_div" else (z3.SRem(a.t, b.t) if s else z3.URem(a.t, b.t))
                return self.sym_option(st, "Option<%s>" % self.tyname(a), z3.Not(bad), Int(r, w, s))
            if op == "abs":
                if not s:
                    raise Unsupported("abs on unsigned")
                ov = a.t == z3.BitVecVal(-(1 << (w - 1)), w)
                if ex.overflow_checks and ex.feasible(st, ov):
                    s2 = st.fork()
                    s2.pc.append(ov)
                    from e2.symex import Outcome
                    ex._side.append(Outcome("panic", s2, msg="abs: attempt to negate with overflow", where=n))
                    if not ex.feasible(st, z3.Not(ov)):
                        raise_dead()
                    st.pc.append(z3.Not(ov))
                return Int(z3.If(a.t < 0, -a.t, a.t), w, s)
            if op == "unsigned_abs":
                return Int(z3.If(a.t < 0, -a.t, a.t), w, False)
            if op == "count_ones":
                acc = z3.BitVecVal(0, 32)
                for i in range(w):
                    acc = acc + z3.ZeroExt(31, z3.Extract(i, i, a.t))
                return Int(acc, 32, False)
            if op in ("min", "max"):
                lt = (a.t < b.t) if s else z3.ULT(a.t, b.t)
                return Int(z3.If(lt, a.t, b.t) if op == "min" else z3.If(lt, b.t, a.t), w, s)
            if op == "saturating_sub" and not s:
                return Int(z3.If(z3.ULT(a.t, b.t), z3.BitVecVal(0, w), a.t - b.t), w, s)
            raise Unsupported("int method " + n)
        m = re.search(r"(?:^|::)f64::(abs|round|min|max|floor|ceil|trunc|is_nan|sqrt|to_bits|from_bits)$", n) or re.search(r"^(?:core|std)::f64::(?:<impl f64>::)?(abs|round|min|max|floor|ceil|trunc|is_nan|to_bits|from_bits)$", n)
        if m and A and isinstance(A[0], (Float, Int)):
            op = m.group(1)
            a = A[0]
            if op == "abs":
                return Float(z3.fpAbs(a.t), 64)
            if op == "round":       # half away from zero
                return Float(z3.fpRoundToIntegral(z3.RNA(), a.t), 64)
            if op in ("min", "max"):
                b = A[1]
                # IEEE minNum/maxNum: NaN operand -> the other; +-0 unspecified (z3 leaves it unspecified too)
                r = z3.fpMin(a.t, b.t) if op == "min" else z3.fpMax(a.t, b.t)
                return Float(r, 64)
            if op == "floor":
                return Float(z3.fpRoundToIntegral(z3.RTN(), a.t), 64)
            if op == "ceil":
                return Float(z3.fpRoundToIntegral(z3.RTP(), a.t), 64)
            if op == "trunc":
                return Float(z3.fpRoundToIntegral(z3.RTZ(), a.t), 64)
            if op == "is_nan":
                return Bool(z3.fpIsNaN(a.t))
            raise Unsupported("f64 method " + n)
        m = re.match(r"^<(f64|f32|&f64) as (?:std::ops::)?(Add|Sub|Mul|Div|Rem|Neg)(?:<.*>)?>::(add|sub|mul|div|rem|neg)$", n)
        if m:
            a = self.deref_val(st, A[0])
            if m.group(2) == "Neg":
                return Float(z3.fpNeg(a.t), a.bits)
            return ex.float_binop(m.group(2), a, self.deref_val(st, A[1]))
        m = re.match(r"^<(i128|isize|usize|u8|u32|u64|i64) as (?:std::ops::)?(BitAnd|BitOr|BitXor|Not|Add|Sub|Mul)(?:<.*>)?>::(\w+)$", n)
        if m:
            a = A[0]
            if m.group(2) == "Not":
                return Int(~a.t, a.bits, a.signed)
            if m.group(2) in ("BitAnd", "BitOr", "BitXor"):
                return ex.int_binop(st, m.group(2), a, A[1])
            # trait Add/Sub/Mul on ints = checked in debug builds
            t = ex.int_binop(st, m.group(2) + "WithOverflow", a, A[1])
            if ex.overflow_checks and ex.feasible(st, t.items[1].t):
                s2 = st.fork()
                s2.pc.append(t.items[1].t)
                from e2.symex import Outcome
                ex._side.append(Outcome("panic", s2, msg="arithmetic overflow in " + n, where=n))
                if not ex.feasible(st, z3.Not(t.items[1].t)):
                    raise_dead()
                st.pc.append(z3.Not(t.items[1].t))
            return t.items[0]
        m = re.match(r"^<(u8|bool) as (?:std::ops::)?(BitAnd|BitOr|BitXor)(?:<.*>)?>::(\w+)$", n)
        if m:
            return ex.int_binop(st, m.group(2), A[0], A[1])
        return None

    def pvec(self, st, meth, A, name):
        ex = self.ex
        if meth == "new":
            return Vec("cell::Cell", None, [])
        recv = A[0]
        v = self.deref_val(st, recv) if isinstance(recv, Ref) else recv
        if not isinstance(v, Vec):
            raise Unsupported("rpds::Vector receiver %r" % (v,))
        if meth == "len":
            return Int(v.len_term(), 64, False)
        if meth == "is_empty":
            return Bool(v.len_term() == 0)
        if meth == "push_back":
            nv = clone_val(v)
            nv.items.append(A[1])
            return nv
        if meth == "push_back_mut":
            v.items.append(A[1])
            return Unit()
        if meth in ("last", "first") and meth == "last":
            return self.vec_method(st, None, "Vec::last", "Vec::last", [recv])
        if meth == "get":
            return self.vec_method(st, None, "Vec::get", "Vec::get", [recv, A[1]])
        if meth == "iter" and isinstance(recv, Ref):
            return self.vec_method(st, None, "Vec::iter", "Vec::iter", [recv])
        if meth in ("drop_last", "drop_last_mut"):
            tgt = v if meth.endswith("_mut") else clone_val(v)
            if not tgt.items:
                if tgt.prefix is None:
                    return self.option("Vector") if meth == "drop_last" else Bool(z3.BoolVal(False))
                ln = tgt.prefix[1]
                if ex.feasible(st, ln == 0) and ex.feasible(st, ln != 0):
                    raise_fork([(ln == 0, None, "empty"), (ln != 0, None, "non-empty")])
                if not ex.feasible(st, ln != 0):
                    return self.option("Vector") if meth == "drop_last" else Bool(z3.BoolVal(False))
                tgt.materialize(ex.tc, 1)
            tgt.items.pop()
            return self.option("Vector", tgt) if meth == "drop_last" else Bool(z3.BoolVal(True))
        if meth == "set":
            raise Unsupported("rpds::Vector::set")
        return None

    def pmap(self, st, meth, A, name):
        ex = self.ex
        from e2.symex import veq
        ty = "rpds::RedBlackTreeMap<cell::Cell, cell::Cell>"
        if meth == "new":
            return PMap(ty, None, [])
        recv = A[0]
        m0 = self.deref_val(st, recv) if isinstance(recv, Ref) else recv
        if isinstance(m0, Opaque):
            m0 = PMap(ty, m0.term, [])
        if not isinstance(m0, PMap):
            raise Unsupported("RedBlackTreeMap receiver %r" % (m0,))
        key = A[1] if len(A) > 1 else None
        if isinstance(key, Ref) and meth in ("get", "contains_key", "remove", "remove_mut"):
            key = self.deref_val(st, key)

        def drop_key(entries):
            out = []
            for (k, v) in entries:
                e = veq(ex, k, key)
                if ex.entailed(st, e):
                    continue
                if ex.feasible(st, e):
                    raise Unsupported("map key equality undetermined")
                out.append((k, v))
            return out
        if meth == "iter":
            return Struct("PMapIter", {0: m0})
        if meth in ("insert", "insert_mut"):
            tgt = m0 if meth == "insert_mut" else clone_val(m0)
            tgt.entries = drop_key(tgt.entries) + [(key, A[2])]
            return Unit() if meth == "insert_mut" else tgt
        if meth in ("remove", "remove_mut"):
            tgt = m0 if meth == "remove_mut" else clone_val(m0)
            n0 = len(tgt.entries)
            tgt.entries = drop_key(tgt.entries)
            if tgt.base is not None:
                # the base may or may not have held the key: it becomes a different opaque map
                # (named after base and key, so that the two runs of a relational lemma get the same map)
                kid = cell_ident(ex, key) or canon(ex, key)
                nm = "pmap_remove(%s,%s)" % (tgt.base, kid) if kid is not None else ex.fresh_name("pmap")
                tgt.base = z3.Const(nm, opaque_sort("rpds::RedBlackTreeMap"))
            if meth == "remove":
                return tgt
            return Bool(z3.BoolVal(True)) if len(tgt.entries) < n0 and tgt.base is None else Bool(z3.Bool(ex.fresh_name("removed")))
        if meth == "size":
            if m0.base is None:
                return Int(z3.BitVecVal(len(m0.entries), 64), 64, False)
            # a function of the map's identity (base + how many entries were written on top), so two runs agree
            return Int(z3.BitVec("pmap_size(%s+%d)" % (m0.base, len(m0.entries)), 64), 64, False)
        if meth in ("get", "contains_key"):
            for (k, v) in reversed(m0.entries):
                e = veq(ex, k, key)
                if ex.entailed(st, e):
                    if meth == "contains_key":
                        return Bool(z3.BoolVal(True))
                    # reference to the stored value
                    return self.mk_enum("Option<&cell::Cell>", "Some", Ref(Box(v, name=ex.fresh_name("pmap_entry"))))
                if ex.feasible(st, e):
                    raise Unsupported("map key equality undetermined")
            if m0.base is None:
                return Bool(z3.BoolVal(False)) if meth == "contains_key" else self.option("&cell::Cell")
            if meth == "contains_key":
                return Bool(z3.Bool(ex.fresh_name("pmap_has")))
            # lookup in the opaque base: presence and value are functions of (base, key identity), so that two runs
            # of a relational lemma see the same map content
            ident = cell_ident(ex, key)
            base_id = str(m0.base)
            if ident is None:
                cellv = mk_sym(ex.tc, "cell::Cell", ex.fresh_name("pmap_val"))
                o2 = self.mk_enum("Option<&cell::Cell>", "Some", Ref(Box(cellv, name=ex.fresh_name("pmap_cell"))))
                return Multi(self.two_way(st, self.option("&cell::Cell"), o2))
            tagn = "%s[%s]" % (base_id, ident)
            has = z3.Bool("has!" + tagn)
            ch, cn = ex.feasible(st, has), ex.feasible(st, z3.Not(has))
            if ch and cn:
                raise_fork([(has, None, "key present"), (z3.Not(has), None, "key absent")])
            if not ch:
                return self.option("&cell::Cell")
            cellv = mk_sym(ex.tc, "cell::Cell", "val!" + tagn)
            return self.mk_enum("Option<&cell::Cell>", "Some", Ref(Box(cellv, name="cell!" + tagn)))
        raise Unsupported("RedBlackTreeMap::" + meth)

    def two_way(self, st, v1, v2):
        s2 = st.fork()
        return [(st, v1), (s2, v2)]

    def tyname(self, a):
        return ("i" if a.signed else "u") + str(a.bits)

    def sym_option(self, st, ty, some_cond, val):
        """Option that is Some(val) iff some_cond: pinned if the path decides it, else fork."""
        ex = self.ex
        c = z3.simplify(some_cond)
        can_some = ex.feasible(st, c)
        can_none = ex.feasible(st, z3.Not(c))
        if can_some and not can_none:
            return self.mk_enum(ty, "Some", val)
        if can_none and not can_some:
            return self.mk_enum(ty, "None")
        raise_fork([(c, None, "some"), (z3.Not(c), None, "none")])

    # ------------------------------------------------------------ Vec / slices
    def vec_of(self, st, r):
        """(vec value, ref to it) from a &Vec / &mut Vec / &[T] argument."""
        ex = self.ex
        if not isinstance(r, Ref):
            raise Unsupported("vec receiver %r" % (r,))
        v = ex.get_at(st, r.box, r.path)
        while isinstance(v, Ref):
            r = v
            v = ex.get_at(st, r.box, r.path)
        if isinstance(v, SliceView):
            return v, r
        if not isinstance(v, Vec):
            raise Unsupported("expected Vec, got %r" % (v,))
        return v, r

    def vec_method(self, st, fr, n, name, A):
        ex = self.ex
        m = re.match(r"^(?:std::vec::)?Vec::(\w+)$", n) or re.match(r"^core::slice::(?:<impl \[.*\]>::)?(\w+)$", n) or re.match(r"^<\[.*\]>::(\w+)$", n)
        idxm = re.match(r"^<(?:std::vec::)?Vec<(.*)> as (Index|IndexMut)<(.*)>>::(index|index_mut)$", n) or \
            re.match(r"^<(?:rpds::)?Vector<(.*)> as (Index|IndexMut)<(.*)>>::(index|index_mut)$", n) or \
            re.match(r"^<\[(.*)\] as (Index|IndexMut)<(.*)>>::(index|index_mut)$", n)
        if not m and not idxm:
            return None
        from e2.symex import Panic, Outcome
        if idxm:
            v, r = self.vec_of(st, A[0])
            ity = strip_ty(idxm.group(3))
            if ity == "usize":
                if isinstance(v, SliceView):
                    raise Unsupported("index into slice view")
                idx = A[1]
                self.bounds_check(st, z3.ULT(idx.t, v.len_term()), "index out of bounds in " + n)
                if v.slots is not None and self.in_slotted_part(st, v, idx.t):
                    return Ref(r.box, r.path + (ex.slot_step(st, v, idx.t),), idxm.group(4) == "index_mut")
                j = ex.vec_index(st, v, idx.t)
                return Ref(r.box, r.path + (("e", j + v.low),), idxm.group(4) == "index_mut")
            if "RangeFrom" in ity:
                rng = A[1]
                start = ex.step_get(st, rng, ("f", 0, "usize"))
                self.bounds_check(st, z3.ULE(start.t, v.len_term()), "range start index out of range in " + n)
                base = v.prefix[1] if v.prefix is not None else z3.BitVecVal(0, 64)
                off = ex.concrete_int(st, z3.simplify(start.t - base), candidates=list(range(len(v.items) + 1)), what="slice start")
                return Ref(Box(SliceView(r, off, None), name=ex.fresh_name("slice")), ())
            raise Unsupported("index with " + ity)
        meth = m.group(1)
        if meth in ("new", "with_capacity"):
            et = self.ty_args(strip_ty(name.split("::new")[0].split("::with_capacity")[0]))
            return Vec(et[0] if et else "?", None, [])
        v, r = self.vec_of(st, A[0])
        if isinstance(v, SliceView):
            return self.slice_method(st, n, meth, v, r, A)
        if meth == "len":
            return Int(v.len_term(), 64, False)
        if meth == "is_empty":
            return Bool(v.len_term() == 0)
        if meth == "push":
            v.items.append(A[1])
            return Unit()
        if meth == "pop":
            if v.items:
                x = v.items.pop()
                return self.option(v.elem_ty, x)
            if v.prefix is None:
                return self.option(v.elem_ty)
            # pop from the symbolic prefix: fork on emptiness, materialise the top prefix element
            origin, ln, taken = v.prefix
            if ex.feasible(st, ln == 0) and ex.feasible(st, ln != 0):
                raise_fork([(ln == 0, None, origin + " empty"), (ln != 0, None, origin + " non-empty")])
            if not ex.feasible(st, ln != 0):
                return self.option(v.elem_ty)
            v.materialize(ex.tc, 1)
            x = v.items.pop()
            return self.option(v.elem_ty, x)
        if meth in ("last", "last_mut"):
            if v.items:
                return self.option("&" + v.elem_ty, Ref(r.box, r.path + (("e", len(v.items) - 1 + v.low),), meth == "last_mut"))
            if v.prefix is None:
                return self.option("&" + v.elem_ty)
            ln = v.prefix[1]
            if ex.feasible(st, ln == 0) and ex.feasible(st, ln != 0):
                raise_fork([(ln == 0, None, "empty"), (ln != 0, None, "non-empty")])
            if not ex.feasible(st, ln != 0):
                return self.option("&" + v.elem_ty)
            v.materialize(ex.tc, 1)
            return self.option("&" + v.elem_ty, Ref(r.box, r.path + (("e", v.low),), meth == "last_mut"))
        if meth in ("get", "get_mut"):
            idx = A[1]
            inb = z3.ULT(idx.t, v.len_term())
            ci, co = ex.feasible(st, inb), ex.feasible(st, z3.Not(inb))
            if ci and co:
                raise_fork([(inb, None, "in bounds"), (z3.Not(inb), None, "out of bounds")])
            if not ci:
                return self.option("&" + v.elem_ty)
            if v.slots is not None and self.in_slotted_part(st, v, idx.t):
                return self.option("&" + v.elem_ty, Ref(r.box, r.path + (ex.slot_step(st, v, idx.t),), meth == "get_mut"))
            j = ex.vec_index(st, v, idx.t)
            return self.option("&" + v.elem_ty, Ref(r.box, r.path + (("e", j + v.low),), meth == "get_mut"))
        if meth == "swap":
            i, j = A[1], A[2]
            ln = v.len_term()
            self.bounds_check(st, z3.And(z3.ULT(i.t, ln), z3.ULT(j.t, ln)), "swap index out of bounds")
            a, b = ex.vec_index(st, v, i.t), ex.vec_index(st, v, j.t)
            v.items[a], v.items[b] = v.items[b], v.items[a]
            return Unit()
        if meth == "truncate":
            k = A[1]
            ln = v.len_term()
            ge = z3.UGE(k.t, ln)
            cg, cl = ex.feasible(st, ge), ex.feasible(st, z3.Not(ge))
            if cg and cl:
                raise_fork([(ge, None, "truncate no-op"), (z3.Not(ge), None, "truncate cuts")])
            if cg:
                return Unit()
            base = v.prefix[1] if v.prefix is not None else z3.BitVecVal(0, 64)
            keep = ex.concrete_int(st, z3.simplify(k.t - base), candidates=list(range(len(v.items) + 1)), what="truncate length")
            del v.items[keep:]
            return Unit()
        if meth == "remove":
            idx = A[1]
            self.bounds_check(st, z3.ULT(idx.t, v.len_term()), "removal index out of bounds")
            j = ex.vec_index(st, v, idx.t)
            return v.items.pop(j)
        if meth == "swap_remove":
            idx = A[1]
            self.bounds_check(st, z3.ULT(idx.t, v.len_term()), "swap_remove index out of bounds")
            j = ex.vec_index(st, v, idx.t)
            x = v.items[j]
            last = v.items.pop()
            if j < len(v.items):
                v.items[j] = last
            return x
        if meth == "insert":
            idx = A[1]
            self.bounds_check(st, z3.ULE(idx.t, v.len_term()), "insertion index out of bounds")
            base = v.prefix[1] if v.prefix is not None else z3.BitVecVal(0, 64)
            j = ex.concrete_int(st, z3.simplify(idx.t - base), candidates=list(range(len(v.items) + 1)), what="insert index")
            v.items.insert(j, A[2])
            return Unit()
        if meth == "clear":
            v.items = []
            v.prefix = None
            return Unit()
        if meth in ("iter", "iter_mut"):
            return Struct("SliceIter", {0: Ref(Box(SliceView(r, 0, None) if v.prefix is None else whole_view(r), name=ex.fresh_name("slice")), ()),
                                        1: 0, 2: 0})
        return None

    def slice_iter(self, st, n, meth, A):
        ex = self.ex
        it = A[0]
        itv = self.deref_val(st, it) if isinstance(it, Ref) else it
        if meth in ("into_iter",):
            return itv
        reversed_ = False
        if isinstance(itv, Struct) and itv.ty == "Rev":
            reversed_ = True
            itv = itv.fields[0]
        if meth == "rev":
            return Struct("Rev", {0: itv})
        if not (isinstance(itv, Struct) and itv.ty == "SliceIter"):
            raise Unsupported("iterator value %r" % (itv,))
        svr = itv.fields[0]
        sv = ex.get_at(st, svr.box, svr.path)
        # fresh_iter.nth(k) over a whole vector == get(k): also fine for a vector with a symbolic part
        if meth == "nth" and not reversed_ and itv.fields[1] == 0 and itv.fields[2] == 0:
            whole = sv if isinstance(sv, Vec) else (sv if sv.whole else None)
            if whole is not None and ((isinstance(sv, Vec) and sv.prefix is not None) or (not isinstance(sv, Vec) and sv.whole)):
                base = svr if isinstance(sv, Vec) else sv.base
                res = self.vec_method(st, None, "Vec::get", "Vec::get", [base, A[1]])      # may fork: mutate only afterwards
                itv.fields[1] = -1        # consumed: any further use of this iterator is refused below
                return res
        if itv.fields[1] == -1:
            raise Unsupported("iterator reused after nth over a symbolic vector")
        if isinstance(sv, Vec):
            base_v, base_r, start, end = sv, svr, 0, None
            if sv.prefix is not None:
                raise Unsupported("iteration over a vector with a symbolic part")
        else:
            if sv.whole:
                raise Unsupported("iteration over a vector with a symbolic part")
            base_v, base_r = self.vec_of(st, sv.base)
            start, end = sv.start, sv.end
        items_n = (len(base_v.items) if end is None else end) - start
        front, back = itv.fields[1], itv.fields[2]
        remaining = items_n - front - back
        k = 0
        if meth in ("nth", "nth_back"):
            k = ex.concrete_int(st, A[1].t, candidates=list(range(0, max(remaining, 0) + 1)), what="iterator skip count")
        from_back = (meth in ("next_back", "nth_back")) != reversed_
        ety = base_v.elem_ty
        if k >= remaining:
            if meth in ("nth", "nth_back"):
                if from_back:
                    itv.fields[2] = back + remaining
                else:
                    itv.fields[1] = front + remaining
            return self.option("&" + ety)
        if from_back:
            pos = start + items_n - back - 1 - k
            itv.fields[2] = back + k + 1
        else:
            pos = start + front + k
            itv.fields[1] = front + k + 1
        return self.option("&" + ety, Ref(base_r.box, base_r.path + (("e", pos + base_v.low),)))

    def in_slotted_part(self, st, v, idx_t):
        """does index idx address the symbolic (slotted) bottom part of v rather than an explicit item on top?"""
        if not v.items:
            return True
        below = z3.ULT(idx_t, v.prefix[1])
        cb, ca = self.ex.feasible(st, below), self.ex.feasible(st, z3.Not(below))
        if cb and ca:
            raise_fork([(below, None, "index in the symbolic part"), (z3.Not(below), None, "index in the explicit part")])
        return cb

    def bounds_check(self, st, ok, msg):
        ex = self.ex
        from e2.symex import Outcome, Panic
        bad = z3.Not(ok)
        if ex.feasible(st, bad):
            s2 = st.fork()
            s2.pc.append(z3.simplify(bad))
            ex._side.append(Outcome("panic", s2, msg=msg, where=st.frames[-1].fn.name))
            if not ex.feasible(st, ok):
                raise_dead()
            st.pc.append(z3.simplify(ok))

    def slice_method(self, st, n, meth, sv, r, A):
        ex = self.ex
        base_v, base_r = self.vec_of(st, sv.base)
        items = base_v.items[sv.start:sv.end] if sv.end is not None else base_v.items[sv.start:]
        if sv.start == 0 and base_v.prefix is not None and not sv.whole_ok:
            pass
        covers_prefix = sv.whole
        if meth == "len":
            if covers_prefix:
                return Int(base_v.len_term(), 64, False)
            return Int(z3.BitVecVal(len(items), 64), 64, False)
        if meth == "is_empty":
            if covers_prefix:
                return Bool(base_v.len_term() == 0)
            return Bool(z3.BoolVal(len(items) == 0))
        if meth in ("last", "last_mut"):
            if items:
                j = sv.start + len(items) - 1
                return self.option("&" + base_v.elem_ty, Ref(base_r.box, base_r.path + (("e", j + base_v.low),), meth == "last_mut"))
            if covers_prefix:
                raise Unsupported("slice last() into symbolic prefix")
            return self.option("&" + base_v.elem_ty)
        if meth in ("iter", "iter_mut"):
            return Struct("SliceIter", {0: Ref(r.box, r.path), 1: 0, 2: 0})
        raise Unsupported("slice method %s" % n)

    # ------------------------------------------------------------ ranges
    def range_method(self, st, n, name, A):
        ex = self.ex
        m = re.match(r"^(?:std::ops::)?Range::is_empty$", n)
        if m:
            rg = self.deref_val(st, A[0])
            s0 = ex.step_get(st, rg, ("f", 0, "isize"))
            e0 = ex.step_get(st, rg, ("f", 1, "isize"))
            lt = (s0.t < e0.t) if s0.signed else z3.ULT(s0.t, e0.t)
            return Bool(z3.Not(lt))
        m = re.match(r"^<(?:std::ops::)?Range<(isize|usize|i32|u32|i64|u64)> as Iterator>::next$", n)
        if m:
            r = A[0]
            rg = self.deref_val(st, r)
            s0 = ex.step_get(st, rg, ("f", 0, m.group(1)))
            e0 = ex.step_get(st, rg, ("f", 1, m.group(1)))
            lt = (s0.t < e0.t) if s0.signed else z3.ULT(s0.t, e0.t)
            cl, cg = ex.feasible(st, lt), ex.feasible(st, z3.Not(lt))
            if cl and cg:
                raise_fork([(lt, None, "range non-empty"), (z3.Not(lt), None, "range empty")])
            if not cl:
                return self.option(m.group(1))
            rg.fields[0] = Int(s0.t + 1, s0.bits, s0.signed)
            return self.option(m.group(1), s0)
        m = re.match(r"^<(?:std::ops::)?Range<(isize|usize|i32|u32)> as (IntoIterator|Clone|From<.*>)>::(into_iter|clone|from)$", n)
        if m:
            return clone_val(self.deref_val(st, A[0]))
        m = re.match(r"^<(?:std::ops::)?Range<(isize|usize|i32|u32)> as (?:Iterator|DoubleEndedIterator)>::rev$", n)
        if m:
            return Struct("Rev", {0: A[0]})
        m = re.match(r"^<Rev<(?:std::ops::)?Range<(isize|usize|i32|u32)>> as IntoIterator>::into_iter$", n)
        if m:
            return A[0]
        m = re.match(r"^<Rev<(?:std::ops::)?Range<(isize|usize|i32|u32)>> as Iterator>::next$", n)
        if m:
            rv = self.deref_val(st, A[0])
            rg = rv.fields[0]
            s0 = ex.step_get(st, rg, ("f", 0, m.group(1)))
            e0 = ex.step_get(st, rg, ("f", 1, m.group(1)))
            lt = (s0.t < e0.t) if s0.signed else z3.ULT(s0.t, e0.t)
            cl, cg = ex.feasible(st, lt), ex.feasible(st, z3.Not(lt))
            if cl and cg:
                raise_fork([(lt, None, "range non-empty"), (z3.Not(lt), None, "range empty")])
            if not cl:
                return self.option(m.group(1))
            ne = Int(e0.t - 1, e0.bits, e0.signed)
            rg.fields[1] = ne
            return self.option(m.group(1), ne)
        return None


def cell_ident(ex, key):
    """identity of a key cell for deterministic naming: tags are transparent for map keys (Ord uses value())"""
    k = key
    for _ in range(3):
        if isinstance(k, Ref):
            k = ex.get_at(None, k.box, k.path)
            continue
        if isinstance(k, Enum) and k.variant == "WithTag" and k.payload is not None and 0 in k.payload.fields:
            rc = k.payload.fields[0]
            wt = ex.get_at(None, rc.box, rc.path)
            if isinstance(wt, Struct) and 1 in wt.fields:
                k = wt.fields[1]
                continue
        break
    if isinstance(k, Enum) and k.origin:
        return k.origin
    return canon(ex, k)


def canon(ex, v, depth=0):
    """deterministic printed identity of a value (for naming uninterpreted lookups); None if not available"""
    if depth > 4:
        return None
    if isinstance(v, (Int, Bool, Float)):
        return str(z3.simplify(v.t))
    if isinstance(v, Opaque):
        return str(v.term)
    if isinstance(v, Unit):
        return "()"
    if isinstance(v, Ref):
        return canon(ex, ex.get_at(None, v.box, v.path), depth + 1)
    if isinstance(v, Enum):
        if v.variant is None:
            return v.origin
        if v.payload is None or not v.payload.fields:
            return "%s" % v.variant if v.origin is None else "%s:%s" % (v.origin, v.variant)
        parts = [canon(ex, v.payload.fields[k], depth + 1) for k in sorted(v.payload.fields, key=str)]
        if any(p is None for p in parts):
            return None
        return "%s(%s)" % (v.variant, ",".join(parts))
    if isinstance(v, Struct):
        if not v.fields:
            return v.origin
        parts = [canon(ex, v.fields[k], depth + 1) for k in sorted(v.fields, key=str)]
        if any(p is None for p in parts):
            return None
        return "{%s}" % ",".join(parts)
    return None


def whole_view(r):
    return SliceView(r, 0, None, whole=True)


def raise_fork(alts):
    from e2.symex import Fork
    raise Fork(alts)


class DeadPath(Exception):
    pass


def raise_dead():
    raise DeadPath()
