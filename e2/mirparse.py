"""Parser for rustc's `-Zunpretty=mir` text (optimized MIR of the xeh crate).

Produces Function objects: params, return type, local types, basic blocks with parsed
statements and terminators. Anything the parser does not understand is kept as
('unknown', text) so that the executor refuses (sound by refusal) only if it is reached.
"""
import re, sys


class Function:
    def __init__(self, name, params, ret, header):
        self.name = name
        self.params = params          # [(local, type)]
        self.ret = ret
        self.locals = {}              # local -> type string
        self.blocks = {}              # bbN -> Block
        self.header = header
        self.promoted = None

    def __repr__(self):
        return "<fn %s>" % self.name

    def __deepcopy__(self, memo):
        return self


class Block:
    def __init__(self, name, cleanup):
        self.name = name
        self.cleanup = cleanup
        self.stmts = []
        self.term = None

    def __deepcopy__(self, memo):
        return self


# ---------------------------------------------------------------- low-level text helpers

CHARLIT = re.compile(r"'(\\.|\\u\{[0-9a-fA-F]+\}|[^\\'])'")


def split_top(s, sep=","):
    """Split on sep at nesting depth 0 w.r.t. ()[]{}<> and string literals."""
    out, depth, cur, i, n = [], 0, [], 0, len(s)
    instr = False
    while i < n:
        c = s[i]
        if not instr and c == "'":
            m = CHARLIT.match(s, i)
            if m:
                cur.append(m.group(0)); i = m.end(); continue
        if instr:
            cur.append(c)
            if c == "\\" and i + 1 < n:
                cur.append(s[i + 1]); i += 1
            elif c == '"':
                instr = False
        elif c == '"':
            instr = True; cur.append(c)
        elif c in "([{":
            depth += 1; cur.append(c)
        elif c in ")]}":
            depth -= 1; cur.append(c)
        elif c == "<":
            # generic bracket unless it is a comparison (never in MIR operands) or '<=' / '<<'
            depth += 1; cur.append(c)
        elif c == ">":
            if i > 0 and s[i - 1] in "-=":   # '->' or '=>'
                cur.append(c)
            else:
                depth -= 1; cur.append(c)
        elif c == sep and depth == 0:
            out.append("".join(cur).strip()); cur = []
        else:
            cur.append(c)
        i += 1
    last = "".join(cur).strip()
    if last or out:
        out.append(last)
    return out


def find_matching(s, start):
    """s[start] is an opening bracket; return index of its match."""
    pairs = {"(": ")", "[": "]", "{": "}", "<": ">"}
    op = s[start]; cl = pairs[op]
    depth = 0; i = start; instr = False
    while i < len(s):
        c = s[i]
        if not instr and c == "'":
            m = CHARLIT.match(s, i)
            if m:
                i = m.end(); continue
        if instr:
            if c == "\\": i += 1
            elif c == '"': instr = False
        elif c == '"': instr = True
        elif c == op: depth += 1
        elif c == cl:
            if not (cl == ">" and i > 0 and s[i - 1] in "-="):
                depth -= 1
                if depth == 0:
                    return i
        i += 1
    raise ValueError("unbalanced: " + s[start:start + 80])


# ---------------------------------------------------------------- places / operands / rvalues

def parse_place(s):
    """Returns ('local', '_N') or nested projections:
       ('deref', P) | ('field', P, idx, type) | ('downcast', P, variant) | ('index', P, local)
       | ('constindex', P, off, minlen, from_end) | ('subslice', P, a, b, from_end)"""
    s = s.strip()
    m = re.fullmatch(r"_\d+", s)
    if m:
        return ("local", s)
    if s.startswith("(*") and find_matching(s, 0) == len(s) - 1:
        return ("deref", parse_place(s[2:-1]))
    # trailing index projection: P[...]
    if s.endswith("]"):
        # find the '[' matching the final ']'
        depth = 0
        for i in range(len(s) - 1, -1, -1):
            if s[i] == "]": depth += 1
            elif s[i] == "[":
                depth -= 1
                if depth == 0:
                    base, inner = s[:i], s[i + 1:-1]
                    if base:
                        bp = parse_place(base)
                        if re.fullmatch(r"_\d+", inner):
                            return ("index", bp, inner)
                        m = re.fullmatch(r"(-?\d+) of (\d+)", inner)
                        if m:
                            fe = inner.startswith("-")
                            return ("constindex", bp, abs(int(m.group(1))), int(m.group(2)), fe)
                        m = re.fullmatch(r"(\d+):(-?\d*)", inner) or re.fullmatch(r"(\d+)\.\.(-?\d*)", inner)
                        if m:
                            return ("subslice", bp, int(m.group(1)), m.group(2))
                    break
    if s.startswith("(") and find_matching(s, 0) == len(s) - 1:
        inner = s[1:-1]
        # (P as Variant)
        m = re.fullmatch(r"(.*) as ([A-Za-z_][A-Za-z0-9_]*|variant#\d+)", inner, re.S)
        if m and not re.search(r": ", m.group(2)):
            try:
                return ("downcast", parse_place(m.group(1)), m.group(2))
            except ValueError:
                pass
        # (P.N: T)
        # find the '.N:' split at depth 0 scanning from left after the base place
        depth = 0
        for i, c in enumerate(inner):
            if c in "([{": depth += 1
            elif c in ")]}": depth -= 1
            elif c == "." and depth == 0:
                m = re.match(r"\.(\d+): ", inner[i:])
                if m:
                    base = inner[:i]
                    try:
                        bp = parse_place(base)
                    except ValueError:
                        continue
                    return ("field", bp, int(m.group(1)), inner[i + m.end():].strip())
    raise ValueError("place? " + s)


def parse_operand(s):
    s = s.strip()
    if s.startswith("no_retag "):
        s = s[9:]
    if s.startswith("copy "):
        return ("copy", parse_place(s[5:]))
    if s.startswith("move "):
        return ("move", parse_place(s[5:]))
    if s.startswith("const "):
        return ("const", s[6:].strip())
    # bare place (in some asserts / older forms)
    try:
        return ("copy", parse_place(s))
    except ValueError:
        return ("const", s)


BINOPS = {"Add", "Sub", "Mul", "Div", "Rem", "BitAnd", "BitOr", "BitXor", "Shl", "Shr", "Eq", "Ne", "Lt", "Le",
          "Gt", "Ge", "Offset", "Cmp", "AddWithOverflow", "SubWithOverflow", "MulWithOverflow",
          "AddUnchecked", "SubUnchecked", "MulUnchecked", "ShlUnchecked", "ShrUnchecked"}
UNOPS = {"Not", "Neg", "PtrMetadata"}


def parse_rvalue(s):
    s = s.strip()
    if s.startswith("no_retag "):
        s = s[9:]
    m = re.match(r"^([A-Za-z]+)\(", s)
    if m and m.group(1) in BINOPS and find_matching(s, m.end() - 1) == len(s) - 1:
        a = split_top(s[m.end():-1])
        if len(a) == 2:
            return ("binop", m.group(1), parse_operand(a[0]), parse_operand(a[1]))
    if m and m.group(1) in UNOPS and find_matching(s, m.end() - 1) == len(s) - 1:
        return ("unop", m.group(1), parse_operand(s[m.end():-1]))
    if s.startswith("discriminant(") and s.endswith(")"):
        return ("discriminant", parse_place(s[13:-1]))
    if s.startswith("Len(") and s.endswith(")"):
        return ("len", parse_place(s[4:-1]))
    if s.startswith("CopyForDeref(") and s.endswith(")"):
        return ("use", ("copy", parse_place(s[13:-1])))
    if s.startswith("&raw const ") or s.startswith("&raw mut "):
        k = 11 if s.startswith("&raw const ") else 9
        return ("addr", parse_place(s[k:]))
    if s.startswith("&mut "):
        return ("ref", "mut", parse_place(s[5:]))
    if s.startswith("&fake shallow "):
        return ("ref", "shared", parse_place(s[14:]))
    if s.startswith("&") and not s.startswith("&&"):
        try:
            return ("ref", "shared", parse_place(s[1:]))
        except ValueError:
            pass
    # cast:  <operand> as <type> (<kind>)
    m = re.fullmatch(r"(.*) as (.*) \(([A-Za-z]+(?:\(.*\))?(?:, [A-Za-z]+)?)\)", s, re.S)
    if m and (m.group(1).startswith(("copy ", "move ", "const "))):
        return ("cast", parse_operand(m.group(1)), m.group(2).strip(), m.group(3))
    if m and m.group(3).startswith(("PointerCoercion", "ReifyFnPointer", "ClosureFnPointer")):
        return ("cast", ("const", m.group(1).strip()), m.group(2).strip(), m.group(3))
    if s.startswith(("copy ", "move ", "const ")):
        return ("use", parse_operand(s))
    # repeat [x; N]
    if s.startswith("[") and s.endswith("]"):
        inner = s[1:-1]
        parts = split_top(inner, ";")
        if len(parts) == 2:
            return ("repeat", parse_operand(parts[0]), parts[1].strip())
        return ("array", [parse_operand(x) for x in split_top(inner) if x != ""])
    # tuple
    if s.startswith("(") and find_matching(s, 0) == len(s) - 1:
        inner = s[1:-1].strip()
        items = [x for x in split_top(inner) if x != ""]
        return ("tuple", [parse_operand(x) for x in items])
    # struct aggregate  Path { f: v, .. }
    m = re.match(r"^(.*?)\s*\{", s, re.S)
    if s.endswith("}") and m and not s.startswith("{"):
        br = s.index("{", len(m.group(1)))
        # make sure this brace is top-level and closes at the end
        try:
            if find_matching(s, br) == len(s) - 1:
                inner = s[br + 1:-1].strip()
                fields = []
                for part in split_top(inner):
                    if not part:
                        continue
                    k = part.index(":")
                    fields.append((part[:k].strip(), parse_operand(part[k + 1:])))
                return ("struct", m.group(1).strip(), fields)
        except ValueError:
            pass
    # closure aggregate {closure@...}  [ { cap: op, .. } ]
    if s.startswith("{closure@") or s.startswith("{coroutine@"):
        e = find_matching(s, 0)
        name = s[:e + 1]
        rest = s[e + 1:].strip()
        caps = []
        if rest.startswith("{") and rest.endswith("}"):
            for part in split_top(rest[1:-1]):
                if part:
                    k = part.index(":")
                    caps.append((part[:k].strip(), parse_operand(part[k + 1:])))
        return ("closure", name, caps)
    # tuple-like aggregate  Path(args)   (enum variant / tuple struct ctor)
    if s.endswith(")"):
        # the '(' that matches the last ')': scan forwards so that char / string literals among the arguments
        # (e.g.  Option::<char>::Some(const ')')  ) are skipped by find_matching
        i = 0
        while i < len(s):
            c = s[i]
            if c in "<[{" or c == "(":
                try:
                    e = find_matching(s, i)
                except ValueError:
                    break
                if c == "(" and e == len(s) - 1 and i > 0:
                    path = s[:i].strip()
                    if path and re.match(r"^[A-Za-z_<&\[(]", path):
                        args = [x for x in split_top(s[i + 1:-1]) if x != ""]
                        return ("ctor", path, [parse_operand(a) for a in args])
                    break
                i = e + 1
                continue
            i += 1
    # unit-like aggregate  Path::Variant   or   Path
    if re.match(r"^[A-Za-z_<]", s):
        return ("ctor", s, [])
    return ("unknown", s)


# ---------------------------------------------------------------- statements / terminators

def parse_targets(s):
    """'[return: bb1, unwind: bb4]' / '[0: bb1, otherwise: bb2]' / 'unwind continue' -> dict"""
    s = s.strip()
    d = {}
    if s.startswith("["):
        for part in split_top(s[1:find_matching(s, 0)]):
            if ":" in part:
                k, v = part.split(":", 1)
                d[k.strip()] = v.strip()
            else:
                d[part.strip()] = True
    else:
        d[s] = True
    return d


def parse_call(s):
    """'f(args)' -> (callee_text, [operands]).  callee may be 'move _2' (fn pointer)."""
    s = s.strip()
    assert s.endswith(")"), s
    depth = 0
    for i in range(len(s) - 1, -1, -1):
        c = s[i]
        if c == ")": depth += 1
        elif c == "(":
            depth -= 1
            if depth == 0:
                callee = s[:i].strip()
                args = [x for x in split_top(s[i + 1:-1]) if x != ""]
                return callee, [parse_operand(a) for a in args]
    raise ValueError("call? " + s)


def parse_line(line):
    """Returns ('stmt', ...) or ('term', ...)."""
    s = line.strip()
    if s.endswith(";"):
        s = s[:-1]
    if s in ("return", "unreachable", "resume", "nop"):
        return ("term", (s,)) if s != "nop" else ("stmt", ("nop",))
    if s.startswith("unwind resume") or s == "terminate" or s.startswith("terminate("):
        return ("term", ("resume",))
    if s.startswith("goto -> "):
        return ("term", ("goto", s[8:].strip()))
    if s.startswith("switchInt("):
        e = find_matching(s, 9)
        op = parse_operand(s[10:e])
        rest = s[e + 1:].strip()
        assert rest.startswith("->"), s
        return ("term", ("switch", op, parse_targets(rest[2:])))
    if s.startswith("drop("):
        e = find_matching(s, 4)
        rest = s[e + 1:].strip()
        return ("term", ("drop", parse_place(s[5:e]), parse_targets(rest[2:]) if rest.startswith("->") else {}))
    if s.startswith("assert("):
        e = find_matching(s, 6)
        parts = split_top(s[7:e])
        cond = parts[0]
        neg = cond.startswith("!")
        rest = s[e + 1:].strip()
        return ("term", ("assert", neg, parse_operand(cond[1:] if neg else cond), parts[1] if len(parts) > 1 else "",
                         parse_targets(rest[2:]) if rest.startswith("->") else {}))
    for pfx in ("StorageLive(", "StorageDead(", "FakeRead(", "AscribeUserType(", "Retag(", "PlaceMention(",
                "Deinit(", "Coverage::", "ConstEvalCounter", "BackwardIncompatibleDropHint("):
        if s.startswith(pfx):
            return ("stmt", ("nop",))
    if s.startswith("assume("):
        return ("stmt", ("assume", parse_operand(s[7:-1])))
    if s.startswith("discriminant(") and " = " in s:
        e = find_matching(s, 12)
        return ("stmt", ("setdiscr", parse_place(s[13:e]), s[e + 1:].split("=", 1)[1].strip()))
    # call terminator with or without destination:  [_x = ] f(args) -> [targets]   | f(args) -> unwind continue
    arrow = None
    depth = 0; instr = False
    i = 0
    while i < len(s) - 1:
        c = s[i]
        if not instr and c == "'":
            m = CHARLIT.match(s, i)
            if m:
                i = m.end(); continue
        if instr:
            if c == "\\": i += 1
            elif c == '"': instr = False
        elif c == '"': instr = True
        elif c in "([{": depth += 1
        elif c in ")]}": depth -= 1
        elif c == "-" and s[i + 1] == ">" and depth == 0 and s[i - 1] == " " and s[i + 2:i + 3] == " " \
                and re.match(r"(\[|unwind|bb\d)", s[i + 3:]):
            arrow = i
        i += 1
    if arrow is not None:
        lhs_rhs = s[:arrow].strip()
        targets = parse_targets(s[arrow + 2:])
        dest = None
        m = re.match(r"^(\S.*?) = (.*)$", lhs_rhs, re.S)
        call_txt = lhs_rhs
        if m:
            try:
                dest = parse_place(m.group(1))
                call_txt = m.group(2)
            except ValueError:
                dest = None
        callee, args = parse_call(call_txt)
        return ("term", ("call", dest, callee, args, targets))
    # assignment
    depth = 0
    for i, c in enumerate(s):
        if c in "([{": depth += 1
        elif c in ")]}": depth -= 1
        elif c == "=" and depth == 0 and s[i - 1] == " " and s[i + 1:i + 2] == " ":
            lhs = s[:i].strip(); rhs = s[i + 1:].strip()
            return ("stmt", ("assign", parse_place(lhs), parse_rvalue(rhs)))
    return ("stmt", ("unknown", s))


HDR = re.compile(r"^fn (.*)$")


def parse_header(line):
    """fn NAME(params) -> RET {"""
    s = line.rstrip()
    assert s.endswith("{"), s
    s = s[3:-1].strip()
    # find the param list: the last top-level '(...)' that is followed by ' -> ' or end
    # name may contain '<impl at src/x.rs:1:1: 2:2>' and '{closure#0}'
    depth = 0
    i = 0
    n = len(s)
    # scan for first '(' at angle depth 0 that starts the params: parameters start with '_1:' or are empty
    cands = [m.start() for m in re.finditer(r"\((?=_\d+: |\))", s)]
    for c in cands:
        try:
            e = find_matching(s, c)
        except ValueError:
            continue
        rest = s[e + 1:].strip()
        if rest == "" or rest.startswith("->"):
            name = s[:c]
            params = []
            for p in split_top(s[c + 1:e]):
                if p:
                    k = p.index(":")
                    params.append((p[:k].strip(), p[k + 1:].strip()))
            ret = rest[2:].strip() if rest.startswith("->") else "()"
            return name, params, ret
    raise ValueError("header? " + line)


def parse_mir(text):
    funcs = {}
    order = []
    cur = None
    blk = None
    lines = text.split("\n")
    i = 0
    pending = None
    while i < len(lines):
        line = lines[i]
        i += 1
        if cur is None:
            if line.startswith("fn "):
                try:
                    name, params, ret = parse_header(line)
                except Exception as e:
                    # statics / consts / promoted bodies have other headers
                    name, params, ret = ("?" + line, [], "?")
                cur = Function(name, params, ret, line)
                for p, t in params:
                    cur.locals[p] = t
                cur.locals["_0"] = ret
            elif re.match(r"^(const|static) ", line) and (line.rstrip().endswith("{") or line.rstrip().endswith(";")):
                # const / static body:   const NAME: T = { ... }    or one-liner   const NAME: T = const VALUE;
                body = re.sub(r"^(const|static(?: mut)?) ", "", line.rstrip())
                # split NAME: T at the first ": " outside <...>
                depth = 0
                cut = None
                for k_, ch in enumerate(body):
                    if ch == "<":
                        depth += 1
                    elif ch == ">" and body[k_ - 1] not in "-=":
                        depth -= 1
                    elif ch == ":" and depth == 0 and body[k_ + 1:k_ + 2] == " " and body[k_ - 1] != ":":
                        cut = k_
                        break
                if cut is None:
                    cur = Function("?" + line, [], "?", line)
                else:
                    cname = body[:cut]
                    rest = body[cut + 2:]
                    if rest.endswith("= {"):
                        cur = Function("const " + cname, [], rest[:-3].strip(), line)
                    else:
                        tyv = rest.rsplit(" = ", 1)
                        f1 = Function("const " + cname, [], tyv[0].strip(), line)
                        f1.locals["_0"] = f1.ret
                        b1 = Block("bb0", False)
                        try:
                            b1.stmts.append(("assign", ("local", "_0"), parse_rvalue(tyv[1].rstrip(";").strip())))
                        except Exception:
                            b1.stmts.append(("unknown", line))
                        b1.term = ("return",)
                        f1.blocks["bb0"] = b1
                        funcs[f1.name] = f1
                        continue
                cur.locals["_0"] = cur.ret
            continue
        s = line.strip()
        if line.startswith("}"):
            funcs[cur.name] = cur
            order.append(cur.name)
            cur = None; blk = None
            continue
        m = re.match(r"^\s*let (mut )?(_\d+): (.*);$", line)
        if m and blk is None:
            cur.locals[m.group(2)] = m.group(3)
            continue
        m = re.match(r"^\s*(bb\d+)( \(cleanup\))?: \{$", line)
        if m:
            blk = Block(m.group(1), bool(m.group(2)))
            cur.blocks[blk.name] = blk
            continue
        if blk is None:
            continue      # scope / debug lines
        if s == "}":
            blk = None
            continue
        if s == "":
            continue
        # multi-line statements (rare): join until ';'
        full = s
        while not full.endswith(";") and i < len(lines) and not lines[i].strip() == "}":
            full += " " + lines[i].strip()
            i += 1
        try:
            kind, val = parse_line(full)
        except Exception as e:
            kind, val = "stmt", ("unknown", full + "   [parse error: %s]" % e)
        if kind == "term":
            blk.term = val
        else:
            blk.stmts.append(val)
    return funcs


if __name__ == "__main__":
    txt = open(sys.argv[1]).read()
    fs = parse_mir(txt)
    unknown = 0
    total = 0
    for f in fs.values():
        for b in f.blocks.values():
            for st in b.stmts:
                total += 1
                def walk(x):
                    global unknown
                    if isinstance(x, tuple):
                        if x and x[0] == "unknown":
                            unknown += 1
                            print("UNKNOWN in", f.name, b.name, x[1][:200])
                        for y in x:
                            walk(y)
                    elif isinstance(x, list):
                        for y in x:
                            walk(y)
                walk(st)
            if b.term is None:
                print("NO TERM", f.name, b.name)
    print(len(fs), "functions", total, "statements", unknown, "unknown")
    print(sum(1 for f in fs if f.startswith("?")), "unparsed headers")
    for f in fs:
        if f.startswith("?"):
            print("  ", f[:150])
