"""C16: the lexer is total, loses no text, and reads literals as written.

One call of the real Lex::next (with the real peek_char / take_char and error closures) from a lexer that
stands at an arbitrary char boundary of an arbitrary text with K characters left; characters are symbolic
Unicode scalar values, so byte offsets, multi-byte characters and every spelling up to K characters are
covered.  Per outcome:
  * no panic (char-boundary slicing, arithmetic), termination within the unrolling;
  * tiling: the token is exactly buf[pos0 .. pos1], start_pos/pos delimit it (last_substr), it is non-empty
    unless the input is exhausted, so consecutive tokens concatenate to the input (induction on calls);
  * integer literals: value == the mathematical value of the spelling (sign, 0x / 0b / leading-zero hex, `_`),
    spellings outside that grammar and values outside i128 are rejected, valid spellings are accepted;
  * reals: the value is f64::from_str of the spelling without `_` (from_str itself: std, uninterpreted);
  * strings: escapes decode as documented; bit-strings: hex digits give 4 bits msb first, x / . one bit.
A second family: long decimal / hex / binary spellings (up to 41 characters, i128 range limits) with the
characters constrained to the alphabet, which keeps it to one path per length.
Printing (cell.rs Debug) and its round trip: see print lemmas below (structure of the printer's output)."""
import z3
from e2.values import *
from e2.strmodel import *
from e2.symex import veq

CH = lambda s: z3.BitVecVal(ord(s), 32)


def find_fn(L, last, param0):
    """the crate function  ...::<last>  whose first parameter has type param0 (robust against moved impl blocks)"""
    c = [f for n, f in L.ex.funcs.items() if n.endswith("::" + last) and f.params and f.params[0][1] == param0 and "tests::" not in n]
    if len(c) != 1:
        raise Unsupported("function %s(%s): %d candidates" % (last, param0, len(c)))
    return c[0]


def mk_lex(L, name, k_before, k_after, unknown_tmp=True, ascii=False):
    """a Lex in the middle of a text: k_before chars already consumed, k_after left"""
    k = k_before + k_after
    txt, cons = mk_text(name, k, ascii=ascii)
    pos0 = txt.sym.offs[k_before]
    lex = Struct("lex::Lex", {0: txt, 1: Int(pos0, 64, False), 2: StrBuf(None if unknown_tmp else []),
                              3: Int(z3.BitVec(name + ".start_pos", 64), 64, False)})
    r = Ref(Box(lex, name=name), (), True)
    return r, lex, txt, cons


def entailed(L, o, cond):
    s = z3.Solver()
    s.set("timeout", L.query_timeout_ms)
    s.add(*o.st.pc)
    s.add(*L.ex.tc.assumptions)
    s.add(z3.Not(cond))
    L.ex.queries += 1
    return s.check() == z3.unsat


def classify(L, o, c, classes):
    """the unique class (name, cond) entailed by the path for character c, or None"""
    for nm, cond in classes:
        if entailed(L, o, cond):
            return nm
    return None


# ---------------------------------------------------------------- the spelling -> value specification (z3)
def spec_int(tok, no_underscore=False):
    """(valid, value: 128-bit term) for the characters of a token, per the documented integer spellings.
    no_underscore: the caller has established that no character is `_` (keeps the long spellings' terms small)"""
    n = len(tok)
    w = wide_bits(128, n, 16)
    W = lambda v: z3.BitVecVal(v, w)

    def digits(ds, radix):
        ok, some, acc = z3.BoolVal(True), z3.BoolVal(False), W(0)
        for c in ds:
            d_ok, d = digit_value(c, radix)
            us = c == CH("_") if not no_underscore else z3.BoolVal(False)
            if no_underscore:
                ok, some, acc = z3.And(ok, d_ok), z3.BoolVal(True), mul_radix(acc, radix, w) + z3.ZeroExt(w - 32, d)
                continue
            ok = z3.And(ok, z3.Or(us, d_ok))
            some = z3.Or(some, z3.Not(us))
            acc = z3.If(us, acc, mul_radix(acc, radix, w) + z3.ZeroExt(w - 32, d))
        return z3.And(ok, some), acc

    def body(b):
        if not b:
            return z3.BoolVal(False), W(0)
        first_digit = is_dec_digit(b[0])
        ok10, v10 = digits(b, 10)
        ok16, v16 = digits(b, 16)
        valid, val = z3.If(b[0] == CH("0"), ok16, ok10), z3.If(b[0] == CH("0"), v16, v10)
        if len(b) >= 2:
            okx, vx = digits(b[2:], 16) if len(b) > 2 else (z3.BoolVal(False), W(0))
            okb, vb = digits(b[2:], 2) if len(b) > 2 else (z3.BoolVal(False), W(0))
            px = z3.And(b[0] == CH("0"), b[1] == CH("x"))
            pb = z3.And(b[0] == CH("0"), b[1] == CH("b"))
            valid = z3.If(px, okx, z3.If(pb, okb, valid))
            val = z3.If(px, vx, z3.If(pb, vb, val))
        return z3.And(first_digit, valid), val
    plus, minus = tok[0] == CH("+"), tok[0] == CH("-")
    ok_u, v_u = body(tok)
    ok_s, v_s = body(tok[1:])
    maxv, minmag = W((1 << 127) - 1), W(1 << 127)
    low = lambda v: z3.Extract(127, 0, v)
    valid = z3.If(plus, z3.And(ok_s, z3.ULE(v_s, maxv)), z3.If(minus, z3.And(ok_s, z3.ULE(v_s, minmag)), z3.And(ok_u, z3.ULE(v_u, maxv))))
    val = z3.If(plus, low(v_s), z3.If(minus, -low(v_s), low(v_u)))
    return valid, val


def text_of_model(m, txt):
    out = []
    for c in txt.sym.chars:
        v = m.eval(c, model_completion=True).as_long()
        out.append(chr(v))
    return "".join(out)


def lex_cex(txt, k_before):
    def build(m):
        s = text_of_model(m, txt)
        # the consumed prefix is replayed as blanks of the same byte length: the lexer keeps no state between tokens
        s = " " * len(s[:k_before].encode()) + s[k_before:]
        hx = s.encode().hex() or "-"
        return {"lines": ["lex 0 %s" % hx], "expect": [("lex_spec", hx)]}
    return build


def ghost_builder(ex):
    """bitstr::BitvecBuilder as a ghost list of bits (the builder itself is decided by an E1 harness)"""
    def default(ex_, st, fr, callee, args):
        return GhostBits([])

    def append_bit(ex_, st, fr, callee, args):
        r0 = args[0]
        g = ex_.get_at(st, r0.box, r0.path)
        ex_.set_at(st, r0.box, r0.path, GhostBits(g.bits + [args[1].t]))
        return Unit()

    def finish(ex_, st, fr, callee, args):
        g = args[0]
        while isinstance(g, Ref):
            g = ex_.get_at(st, g.box, g.path)
        return GhostBits(g.bits, True)
    ex.overrides[r"BitvecBuilder as Default>::default$"] = default
    ex.overrides[r"BitvecBuilder::append_bit$"] = append_bit
    ex.overrides[r"BitvecBuilder::finish$"] = finish


def unghost_builder(ex):
    for k in list(ex.overrides):
        if "append_bit" in k or "BitvecBuilder" in k:
            ex.overrides.pop(k)


# ---------------------------------------------------------------- one step of the lexer
def step_lemma(k_before, k_after, classes=None):
    """classes: optional per-character alphabets (lists of inclusive (lo, hi) character ranges) for the k_after
    characters left: the same obligations on a family of longer tokens of a fixed shape"""
    def body(L):
        L.ex.string_model = True
        lb0, L.ex.loop_bound = L.ex.loop_bound, 5 * k_after + 8        # 4 bit-appends per hex digit share one loop head
        try:
            r, lex, txt, cons = mk_lex(L, "lx", k_before, k_after, ascii=classes is not None and k_before == 0)
            cons = list(cons)
            if classes is not None:
                for c, cl in zip(txt.sym.chars[k_before:], classes):
                    cons.append(z3.Or(*[z3.And(z3.UGE(c, ord(a)), z3.ULE(c, ord(b))) for a, b in cl]))
            outs = L.run(find_fn(L, "next", "&mut lex::Lex"), [r], cons, {"lx": r})
        finally:
            L.ex.string_model = False
            L.ex.loop_bound = lb0
        sym = txt.sym
        cex = lex_cex(txt, k_before)
        L.witness(outs, lambda o: o.kind == "return" and o.value.variant == "Ok", "next returns a token")
        if k_after >= 1:
            L.witness(outs, lambda o: o.kind == "return" and o.value.variant == "Ok" and o.value.payload.fields[0].variant == "Literal", "next returns a literal")
        for o in outs:
            if o.kind != "return":
                L.fail(o, "Lex::next must not panic (%s)" % (o.msg or "")[:100], cex=cex)
                continue
            lx1 = L.ex.get_at(None, o.st.ghost["roots"]["lx"].box, o.st.ghost["roots"]["lx"].path)
            buf1, pos1, start1 = lx1.fields[0], lx1.fields[1].t, lx1.fields[3].t
            L.require(o, z3.BoolVal(isinstance(buf1, Text) and buf1.sym.name == sym.name and buf1.lo == 0 and buf1.hi == len(sym)), "the source text is never modified", cex=cex)
            # the end of the token: a char boundary at or after the start
            j = None
            for cand in range(k_before, len(sym) + 1):
                if entailed(L, o, pos1 == sym.offs[cand]):
                    j = cand
                    break
            if o.value.variant != "Ok":
                L.require(o, z3.BoolVal(j is not None), "after an error the lexer still stands on a char boundary at or after the token start", cex=cex)
                check_reject(L, o, sym, k_before, cex)
                continue
            if not L.require(o, z3.BoolVal(j is not None), "the lexer stops on a char boundary at or after the token start", cex=cex):
                continue
            L.require(o, start1 == sym.offs[k_before], "start_pos marks where this token began (last_substr == token text)", cex=cex)
            tok = o.value.payload.fields[0]
            if tok.variant is None:
                raise Unsupported("token kind not concrete")
            if tok.variant == "EndOfInput":
                L.require(o, z3.BoolVal(k_after == 0 and j == k_before), "EndOfInput only when nothing is left, consuming nothing", cex=cex)
                continue
            L.require(o, z3.BoolVal(j > k_before), "every token consumes at least one character", cex=cex)
            chars = sym.chars[k_before:j]
            if tok.variant in ("Word", "Whitespace", "Comment"):
                sub = tok.payload.fields[0]
                L.require(o, z3.BoolVal(isinstance(sub, Text) and sub.sym.name == sym.name and (sub.lo, sub.hi) == (k_before, j)),
                          "%s token text is exactly the consumed characters" % tok.variant, cex=cex)
                if tok.variant == "Whitespace":
                    L.require(o, z3.And(*[is_ws(c) for c in chars]), "a whitespace token holds only whitespace", cex=cex)
                if tok.variant == "Word":
                    L.require(o, z3.And(*[z3.Not(is_ws(c)) for c in chars]), "a word holds no whitespace", cex=cex)
                    ok, _v = spec_int(chars)
                    L.require(o, z3.Not(ok), "a valid integer spelling is never read as a word", cex=cex)
                continue
            lit = tok.payload.fields[0]
            if lit.variant is None:
                raise Unsupported("literal kind not concrete")
            if lit.variant == "Int":
                ok, v = spec_int(chars)
                L.require(o, ok, "a spelling read as an integer is a documented integer spelling within i128", cex=cex)
                L.require(o, z3.Implies(ok, lit.payload.fields[0].t == v), "an integer literal denotes its mathematical value", cex=cex)
            elif lit.variant == "Real":
                check_real(L, o, chars, lit.payload.fields[0], cex)
            elif lit.variant == "Str":
                check_str(L, o, chars, lit.payload.fields[0], cex)
            elif lit.variant == "Bitstr":
                check_bits(L, o, chars, lit.payload.fields[0], cex)
            else:
                L.fail(o, "the lexer produces only Int / Real / Str / Bitstr literals, got %s" % lit.variant, cex=cex)
    return body


def token_extent(L, o, sym, k_before):
    """chars of the maximal non-whitespace run starting at k_before, if the path pins it"""
    j = k_before
    while j < len(sym):
        if entailed(L, o, is_ws(sym.chars[j])):
            break
        if not entailed(L, o, z3.Not(is_ws(sym.chars[j]))):
            return None
        j += 1
    return sym.chars[k_before:j]


def check_reject(L, o, sym, k_before, cex):
    """an error must not hit a valid integer spelling"""
    chars = token_extent(L, o, sym, k_before)
    if not chars:
        return
    ok, _v = spec_int(chars)
    L.require(o, z3.Not(ok), "a documented integer spelling within i128 is accepted", cex=cex)


def check_real(L, o, chars, val, cex):
    kept = []
    for c in chars:
        if entailed(L, o, c == CH("_")):
            continue
        if not entailed(L, o, c != CH("_")):
            raise Unsupported("real literal: `_` not decided by the path")
        kept.append(c)
    ok, v = parse_f64_uf(kept)
    L.require(o, z3.And(ok, val.t == v), "a real literal is f64::from_str of its spelling without `_`", cex=cex)
    L.require(o, z3.Or(*[c == CH(".") for c in chars]), "only spellings with a `.` are read as reals", cex=cex)
    L.require(o, z3.Or(is_dec_digit(chars[0]), z3.And(z3.Or(chars[0] == CH("+"), chars[0] == CH("-")), is_dec_digit(chars[1]) if len(chars) > 1 else False)),
              "a real literal starts with an optional sign and a digit", cex=cex)


def check_str(L, o, chars, val, cex):
    quote = lambda c: z3.Or(c == CH('"'), c == CH("”"))
    L.require(o, z3.Or(chars[0] == CH('"'), chars[0] == CH("“")), "a string literal starts with a quote", cex=cex)
    exp, i, closed = [], 1, False
    while i < len(chars):
        c = chars[i]
        if entailed(L, o, c == CH("\\")):
            if i + 1 >= len(chars):
                break
            e = chars[i + 1]
            kind = classify(L, o, e, [("\\", e == CH("\\")), ('"', e == CH('"')), ("n", e == CH("n")), ("r", e == CH("r")), ("t", e == CH("t"))])
            if kind is None:
                L.fail(o, "an unknown escape sequence is rejected", cex=cex)
                return
            exp.append({"\\": CH("\\"), '"': CH('"'), "n": CH("\n"), "r": CH("\r"), "t": CH("\t")}[kind])
            i += 2
            continue
        if entailed(L, o, quote(c)):
            closed = (i == len(chars) - 1)
            break
        if not entailed(L, o, z3.And(c != CH("\\"), z3.Not(quote(c)))):
            raise Unsupported("string literal: character class not decided by the path")
        exp.append(c)
        i += 1
    L.require(o, z3.BoolVal(closed), "a string literal ends at its first unescaped closing quote", cex=cex)
    got = val.chars() if isinstance(val, Text) else None
    if got is None:
        raise Unsupported("string literal value is not a modelled text: %r" % (val,))
    L.require(o, z3.BoolVal(len(got) == len(exp)) if len(got) != len(exp) else z3.And(*[a == b for a, b in zip(got, exp)]) if exp else z3.BoolVal(True),
              "string escapes decode as documented, every other character is kept", cex=cex)


def check_bits(L, o, chars, val, cex):
    L.require(o, z3.And(chars[0] == CH("|"), chars[-1] == CH("|")), "a bit-string literal is delimited by `|`", cex=cex)
    exp = []
    for c in chars[1:-1]:
        hx, d = digit_value(c, 16)
        kind = classify(L, o, c, [("hex", hx), ("ws", is_ws(c)), ("clr", c == CH(".")), ("set", c == CH("x"))])
        if kind is None:
            L.fail(o, "a bit-string literal holds only hex digits, x, . and whitespace", cex=cex)
            return
        if kind == "hex":
            for i in (3, 2, 1, 0):
                exp.append(z3.Extract(7, 0, z3.LShR(d, i)) & 1)
        elif kind == "clr":
            exp.append(z3.BitVecVal(0, 8))
        elif kind == "set":
            exp.append(z3.BitVecVal(1, 8))
    got = bitstr_bits(L, o, val, len(exp))
    same = z3.BoolVal(False) if got is None else (z3.And(*[a == b for a, b in zip(got, exp)]) if exp else z3.BoolVal(True))
    L.require(o, same, "a bit-string literal denotes exactly its hex digits (4 bits, msb first) and x / . bits", cex=cex)


def bitstr_bits(L, o, bs, nbits):
    """the bits (8-bit terms, 0/1) of a Bitstr built by the real BitvecBuilder on this path, None if it does not
    have exactly nbits bits starting at bit 0"""
    if isinstance(bs, GhostBits):
        return bs.bits if len(bs.bits) == nbits else None
    ex = L.ex
    rg = bs.fields[0]
    lo, hi = rg.fields[0].t, rg.fields[1].t
    if not (entailed(L, o, lo == 0) and entailed(L, o, hi == nbits)):
        return None
    data = bs.fields[1]
    for _ in range(4):
        if isinstance(data, Ref):
            data = ex.get_at(None, data.box, data.path)
        elif isinstance(data, Enum):            # Cow::Owned(vec) / Cow::Borrowed(slice)
            data = data.payload.fields[0]
        else:
            break
    if not isinstance(data, Vec) or data.prefix is not None:
        raise Unsupported("bit-string data is not an explicit byte vector: %r" % (data,))
    if len(data.items) * 8 < nbits:
        return None
    return [z3.LShR(data.items[i // 8].t, 7 - i % 8) & 1 for i in range(nbits)]


# ---------------------------------------------------------------- long numeric spellings (range limits)
def long_int_lemma(n, prefix, alphabet, uf=False):
    """spellings  prefix + n characters of `alphabet`  followed by the end of input: one path per length.
    uf=True: from_str_radix stays uninterpreted and the claim is that the lexer hands it exactly sign + digits
    with the right radix (the arithmetic of long decimal strings is std's, and too hard for the bit-blaster)"""
    def body(L):
        L.ex.string_model = True
        L.ex.int_parse_uf = uf
        lb0, L.ex.loop_bound = L.ex.loop_bound, len(prefix) + n + 8
        try:
            k = len(prefix) + n
            r, lex, txt, cons = mk_lex(L, "lx", 0, k, ascii=True)
            sym = txt.sym
            cons = list(cons)
            for i, p in enumerate(prefix):
                cons.append(sym.chars[i] == CH(p) if len(p) == 1 else z3.Or(*[sym.chars[i] == CH(x) for x in p]))
            for c in sym.chars[len(prefix):]:
                cons.append(z3.Or(*[z3.And(z3.UGE(c, ord(a)), z3.ULE(c, ord(b))) for a, b in alphabet]))
            outs = L.run(find_fn(L, "next", "&mut lex::Lex"), [r], cons, {"lx": r})
        finally:
            L.ex.string_model = False
            L.ex.int_parse_uf = False
            L.ex.loop_bound = lb0
        cex = lex_cex(txt, 0)
        L.witness(outs, lambda o: o.kind == "return" and o.value.variant == "Ok", "a long spelling can be accepted")
        if uf:
            ptxt = "".join(p if len(p) == 1 else "1" for p in prefix)
            sign = [sym.chars[0]] if ptxt[0] in "+-" else []
            body_ = ptxt[len(sign):]
            radix = 16 if body_.startswith("0") else 10
            radix = 2 if body_.startswith("0b") else radix
            skip = len(sign) + (2 if body_[:2] in ("0x", "0b") else 0)
            ok, v = int_of_chars_uf(sign + sym.chars[skip:], radix, 128)
        else:
            ok, v = spec_int(sym.chars, no_underscore=True)
        for o in outs:
            if o.kind != "return":
                L.fail(o, "Lex::next must not panic (%s)" % (o.msg or "")[:100], cex=cex)
                continue
            if not entailed(L, o, z3.And(*[c != CH("_") for c in sym.chars])):
                raise Unsupported("long spelling: `_` not excluded by the alphabet")
            if o.value.variant == "Ok":
                tok = o.value.payload.fields[0]
                lit = tok.payload.fields[0] if tok.variant == "Literal" else None
                if lit is None or lit.variant != "Int":
                    L.fail(o, "a digit string is read as an integer literal", cex=cex)
                    continue
                L.require(o, z3.And(ok, lit.payload.fields[0].t == v), "a long integer spelling denotes its mathematical value (i128 range)", cex=cex)
            else:
                L.require(o, z3.Not(ok), "only spellings outside i128 are rejected", cex=cex)
    return body


# ---------------------------------------------------------------- the printer (Debug for Cell)
def fmt_run(L, cell, pc, width=None):
    L.ex.string_model = True
    try:
        f = Ref(Box(FmtOut([], width), name="fmt"), (), True)
        outs = L.run(find_fn(L, "fmt", "&cell::Cell"), [Ref(Box(cell, name="printed")), f], pc, {"f": f})
    finally:
        L.ex.string_model = False
    return outs


def written(L, o):
    r = o.st.ghost["roots"]["f"]
    return L.ex.get_at(None, r.box, r.path).chunks


def print_int_lemma(L):
    """default formatting of an integer is exactly Display of the i128 (decimal), nothing before or after"""
    n = Int(z3.BitVec("n", 128), 128, True)
    cell = Enum("cell::Cell", "Int", Struct("cell::Cell::Int", {0: n}))
    outs = fmt_run(L, cell, [])
    L.witness(outs, lambda o: o.kind == "return" and o.value.variant == "Ok", "an integer prints")
    def cex(m):
        v = m.eval(n.t, model_completion=True).as_long()
        v = v - (1 << 128) if v >> 127 else v
        return {"lines": ["push int %d" % v, "stack"], "expect": [("no_panic",), ("print_int_spec", v)]}
    for o in outs:
        if o.kind != "return" or o.value.variant != "Ok":
            L.fail(o, "printing an integer neither panics nor fails", cex=cex)
            continue
        ch = written(L, o)
        good = len(ch) == 1 and isinstance(ch[0], tuple) and ch[0][0] == "display" and ch[0][1] is None and isinstance(ch[0][2], Int) and ch[0][2].bits == 128 and ch[0][2].signed
        if not L.require(o, z3.BoolVal(good), "an integer prints as exactly one Display (decimal) rendering of an i128", cex=cex):
            continue
        L.require(o, ch[0][2].t == n.t, "the integer printed is the cell's value", cex=cex)


def print_bits_lemma(k, last_bits):
    """Debug of a bit-string whose iter8 yields k chunks (8 bits each, the last one `last_bits`): the characters
    written, read back by the bit-string literal rules, are the same bits"""
    def body(L):
        xs = [z3.BitVec("x%d" % i, 8) for i in range(k)]
        ns = [8] * (k - 1) + [last_bits] if k else []
        pc = [z3.ULT(x, 1 << n) for x, n in zip(xs, ns) if n < 8]

        class ChunkIt(Atom):
            def __init__(self, i):
                self.i = i

        def iter8(ex_, st, fr, c, a):
            return ChunkIt(0)

        def ident(ex_, st, fr, c, a):
            return a[0]

        def nxt(ex_, st, fr, c, a):
            r0 = a[0]
            it = ex_.get_at(st, r0.box, r0.path)
            S = ex_.summ
            if it.i >= k:
                return S.option("(usize, (u8, u32))")
            ex_.set_at(st, r0.box, r0.path, ChunkIt(it.i + 1))
            return S.option("(usize, (u8, u32))", Tuple([Int(z3.BitVecVal(it.i, 64), 64, False), Tuple([Int(xs[it.i], 8, False), Int(z3.BitVecVal(ns[it.i], 32), 32, False)])]))
        ov = {r"Bitstr::iter8$": iter8, r"^<Iter8<'_> as Iterator>::enumerate$": ident, r"^<Enumerate<Iter8<'_>> as IntoIterator>::into_iter$": ident,
              r"^<Enumerate<Iter8<'_>> as Iterator>::next$": nxt}
        L.ex.overrides.update(ov)
        lb0, L.ex.loop_bound = L.ex.loop_bound, 8 * k + 8
        try:
            cell = Enum("cell::Cell", "Bitstr", Struct("cell::Cell::Bitstr", {0: L.sym("bitstr::Bitstr", "bs")}))
            outs = fmt_run(L, cell, pc)
        finally:
            for kx in ov:
                L.ex.overrides.pop(kx, None)
            L.ex.loop_bound = lb0
        L.witness(outs, lambda o: o.kind == "return" and o.value.variant == "Ok", "a bit-string prints")

        def cex(m):
            bits = ""
            for x, nb in zip(xs, ns):
                bits += format(m.eval(x, model_completion=True).as_long() & ((1 << nb) - 1), "0%db" % nb)
            pad = bits + "0" * (-len(bits) % 8)
            hx = "".join("%02x" % int(pad[i:i + 8], 2) for i in range(0, len(pad), 8)) or "00"
            return {"lines": ["push bitstr %s 0 %d" % (hx, len(bits)), "stack"], "expect": [("no_panic",), ("print_bits_spec", bits)]}
        exp = []
        for x, n in zip(xs, ns):
            exp += [z3.Extract(0, 0, z3.LShR(x, i)) for i in range(n - 1, -1, -1)]
        for o in outs:
            if o.kind != "return" or o.value.variant != "Ok":
                L.fail(o, "printing a bit-string neither panics nor fails", cex=cex)
                continue
            ch = written(L, o)
            if not L.require(o, z3.BoolVal(all(not isinstance(c, tuple) for c in ch)), "a bit-string prints as plain characters (single hex digits, x, ., blanks, bars)", cex=cex):
                continue
            if not L.require(o, z3.BoolVal(len(ch) >= 2) if len(ch) < 2 else z3.And(ch[0] == CH("|"), ch[-1] == CH("|")), "the printed bit-string is delimited by `|`", cex=cex):
                continue
            # read the characters back with the literal rules (the lexer lemma's specification)
            got = []
            ok = True
            for c in ch[1:-1]:
                hx, d = digit_value(c, 16)
                kind = classify(L, o, c, [("hex", hx), ("ws", is_ws(c)), ("clr", c == CH(".")), ("set", c == CH("x"))])
                if kind is None:
                    L.fail(o, "every printed character is a hex digit, x, . or a blank", cex=cex)
                    ok = False
                    break
                if kind == "hex":
                    got += [z3.Extract(0, 0, z3.LShR(d, i)) for i in (3, 2, 1, 0)]
                elif kind in ("clr", "set"):
                    got.append(z3.BitVecVal(1 if kind == "set" else 0, 1))
            if not ok:
                continue
            same = z3.BoolVal(False) if len(got) != len(exp) else (z3.And(*[a == b for a, b in zip(got, exp)]) if exp else z3.BoolVal(True))
            L.require(o, same, "reading the printed bit-string back gives the same bits (%d chunks, last %d bits)" % (k, last_bits), cex=cex)
            L.require(o, z3.And(*[c != CH("|") for c in ch[1:-1]]) if len(ch) > 2 else z3.BoolVal(True), "no `|` inside the printed bit-string", cex=cex)
    return body


# ---------------------------------------------------------------- translator self-test
def harvest_lexer_tests():
    """the texts the repository's own lexer tests feed to the lexer (src/lex.rs, mod tests)"""
    import re as _re, os
    from lib.common import REPO
    src = open(os.path.join(REPO, "src", "lex.rs")).read()
    i = src.find("mod tests")
    body = src[i:] if i >= 0 else ""
    out = []
    for m in _re.finditer(r'(?:tokenize_input|Xstr::from)\(\s*(?:r#"(.*?)"#|"((?:[^"\\]|\\.)*)")\s*\)', body, _re.S):
        if m.group(1) is not None:
            out.append(m.group(1))
        else:
            t = unescape_rust('"' + m.group(2) + '"')
            if t is not None:
                out.append(t)
    extra = ["0x-5", "-0x80000000000000000000000000000000", "1_000 0b_1 |f x.| \"a\\n\" é\t\\ c\n", "“q” +1.5e3 \\( x \\) y"]
    return list(dict.fromkeys(out + extra))


def selftest_lemma(L):
    """run the repository's lexer test inputs through mirsym (concrete characters) and through the real binary;
    the token streams must agree. A disagreement is a defect of the translator or of the std summaries: the
    check then ends inconclusive (exit 2), it is never reported as a violation of the property."""
    from e2.driver import build_replayer, run_scenario
    ok, msg = build_replayer()
    if not ok:
        raise Unsupported("replayer build failed: " + msg)
    texts = harvest_lexer_tests()
    n = 0
    for text in texts:
        hx = text.encode().hex() or "-"
        rc, out = run_scenario(["lex 0 " + hx], False)
        native = [l for l in out.splitlines() if l.startswith("TOK ")]
        mine = sym_lex(L, text)
        norm = lambda l: " ".join(l.split(" ")[:4]) if l.split(" ")[1] == "err" else l
        if [norm(l) for l in native] != [norm(l) for l in mine]:
            L.undecided.append((L.cur, "TRANSLATOR MISMATCH on %r: native %s vs mirsym %s" % (text, native[:8], mine[:8])))
        else:
            n += 1
    L.selftest_traces = getattr(L, "selftest_traces", 0) + n
    from e2.lemma import Obligation
    L.obligations.append(Obligation(L.cur, "translator self-test: %d of %d lexer test inputs of the repository give the same token stream in mirsym and natively" % (n, len(texts)), "holds"))
    if n == 0:
        L.undecided.append((L.cur, "VACUOUS: no lexer test input harvested"))


def sym_lex(L, text):
    cv = lambda t: z3.simplify(t).as_long()
    chars = [z3.BitVecVal(ord(c), 32) for c in text]
    sym = SymText("st", chars)
    lex = Struct("lex::Lex", {0: Text(sym, 0, len(chars), "arc"), 1: Int(z3.BitVecVal(0, 64), 64, False), 2: StrBuf([]), 3: Int(z3.BitVecVal(0, 64), 64, False)})
    r = Ref(Box(lex, name="stlex"), (), True)
    L.ex.string_model = True
    lb0, L.ex.loop_bound = L.ex.loop_bound, 5 * len(chars) + 16
    lines = []
    try:
        fn = find_fn(L, "next", "&mut lex::Lex")
        pc = []
        for _ in range(len(chars) + 2):
            outs = [o for o in L.run(fn, [r], pc, {"lx": r}) if L.feasible(o)]
            if len(outs) != 1 or outs[0].kind != "return":
                lines.append("TOK ?? %d outcomes %s" % (len(outs), [o.kind for o in outs]))
                break
            o = outs[0]
            r = o.st.ghost["roots"]["lx"]
            pc = list(o.st.pc)
            lx1 = L.ex.get_at(None, r.box, r.path)
            a, b = cv(lx1.fields[3].t), cv(lx1.fields[1].t)
            if o.value.variant != "Ok":
                lines.append("TOK err %d %d" % (a, b))
                break
            tok = o.value.payload.fields[0]
            if tok.variant == "EndOfInput":
                lines.append("TOK eof %d %d" % (a, b))
                break
            if tok.variant in ("Word", "Whitespace", "Comment"):
                sub = tok.payload.fields[0]
                lines.append("TOK %s %d %d %d %d" % ({"Word": "word", "Whitespace": "ws", "Comment": "comment"}[tok.variant], a, b, cv(sym.offs[sub.lo]), cv(sym.offs[sub.hi])))
                continue
            lit = tok.payload.fields[0]
            if lit.variant == "Int":
                v = cv(lit.payload.fields[0].t)
                lines.append("TOK int %d %d %d" % (a, b, v - (1 << 128) if v >> 127 else v))
            elif lit.variant == "Real":
                fv = z3.simplify(z3.fpToIEEEBV(lit.payload.fields[0].t))
                lines.append("TOK real %d %d %016x" % (a, b, fv.as_long()))
            elif lit.variant == "Str":
                sv = lit.payload.fields[0]
                lines.append("TOK str %d %d %s-" % (a, b, "".join(chr(cv(c)) for c in sv.chars()).encode().hex()))
            elif lit.variant == "Bitstr":
                bs = lit.payload.fields[0]
                nb = cv(bs.fields[0].fields[1].t) - cv(bs.fields[0].fields[0].t)
                bits = bitstr_bits(L, o, bs, nb)
                lines.append("TOK bits %d %d %s-" % (a, b, "".join(str(cv(x)) for x in bits)))
            else:
                lines.append("TOK other %d %d" % (a, b))
    finally:
        L.ex.string_model = False
        L.ex.loop_bound = lb0
    return lines


def run(L, tier, only=None):
    L.ex.path_budget = 60000
    L.lemma_time_budget = 900.0 if tier == "quick" else 3000.0
    ks = [(0, 0), (0, 1), (1, 2), (0, 3), (1, 3), (0, 4)] if tier == "quick" else [(0, 0), (0, 1), (1, 1), (0, 2), (1, 2), (0, 3), (1, 3), (0, 4), (1, 4), (0, 5), (1, 5), (0, 6)]
    for kb, ka in ks:
        if ka >= 6 and getattr(L.ex, "flavour", "on") != "on":
            continue            # the 6-character family (45 min) is run with overflow checks on only; the lexer's only arithmetic is pos += len
        nm = "step%d_%d" % (kb, ka)
        if not only or nm in only or "step" in only:
            L.lemma("C16 Lex::next, %d chars consumed, %d left" % (kb, ka), step_lemma(kb, ka))
    DEC, HEX, BIN = [("0", "9")], [("0", "9"), ("a", "f"), ("A", "F")], [("0", "1")]
    # bit-string literals at every in-byte alignment: `|`, k single-bit characters, h hex digits, `|`
    BIT1, HEXC, BAR = [("x", "x"), (".", ".")], [("0", "9"), ("a", "f"), ("A", "F")], [("|", "|")]
    for k in (range(0, 9) if tier != "quick" else (0, 3, 5, 7)):
        for h in ((1, 2) if tier != "quick" else (2,)):
            nm = "bits%d_%d" % (k, h)
            if not only or nm in only or "bits" in only:
                L.lemma("C16 bit-string literal, %d single bits then %d hex digits" % (k, h), step_lemma(0, k + h + 2, [BAR] + [BIT1] * k + [HEXC] * h + [BAR]))
    # (digits, prefix, alphabet, from_str_radix uninterpreted?)
    longs = [(39, ["-", "123456789"], DEC, True), (16, ["-", "123456789"], DEC, False), (33, ["-", "0", "x"], HEX, False)]
    if tier != "quick":
        longs += [(38, ["123456789"], DEC, True), (38, ["+", "123456789"], DEC, True), (32, ["0", "x"], HEX, False), (31, ["0"], HEX, False),
                  (128, ["-", "0", "b"], BIN, False), (127, ["0", "b"], BIN, False), (20, ["123456789"], DEC, False), (33, ["0", "x"], HEX, True)]
    for n, prefix, alpha, uf in longs:
        nm = "long_%s%d%s" % ("".join(p[0] for p in prefix), n, "u" if uf else "")
        if not only or nm in only or "long" in only:
            L.lemma("C16 long spelling %s + %d digits%s" % ("".join(p if len(p) == 1 else "[1-9]" for p in prefix), n, " (plumbing)" if uf else ""),
                    long_int_lemma(n, prefix, alpha, uf))
    if not only or "selftest" in only:
        L.lemma("C16 translator self-test on the repository's lexer tests", selftest_lemma)
    if not only or "print" in only:
        L.lemma("C16 print integer", print_int_lemma)
        shapes = [(0, 0), (1, 8), (1, 3), (2, 5), (2, 4)] if tier == "quick" else [(0, 0)] + [(k, n) for k in (1, 2, 3) for n in range(1, 9)]
        for k, n in shapes:
            L.lemma("C16 print bit-string, %d chunks, last %d bits" % (k, n), print_bits_lemma(k, n))
    L.ex.path_budget = None
    L.lemma_time_budget = 420.0
