"""C18 (wrappers) and C07 (word level): the words of base_ext.rs / bitstr_ext.rs that wrap codecs and
construct binary data, run as real MIR with the codec crates and the Bitstr internals uninterpreted.

C18: encode words accept exactly what >bitstr accepts plus the whole-bytes condition and push the codec's
text; decode words push the decoded bytes when the codec accepts the text and nil otherwise, consume exactly
one cell and never fail on a string. (The codecs' own round trip is outside: Kani does not finish a 1-byte
instance of base32/base64 in 900 s, and their MIR is not part of the dump.)
C07: pack words push exactly from_int/from_fN of the popped value with the requested width and byte order;
emit with interception on makes output' = output.append(bs) and output-length' = output-length + len(bs)."""
import re
import z3
from e2.values import *
from e2.lemma import word_map, word_call
from e2.prestate import *
from e2.symex import veq
from e2.scen import *
from e2.lemmas import c06
from e2.summaries import canon


def install_codecs(ex):
    def enc(name):
        def f(ex_, st, fr, callee, args):
            a = args[-1]
            while isinstance(a, Ref):
                a = ex_.get_at(st, a.box, a.path)
            return Opaque("std::string::String", z3.Const("%s(%s)" % (name, canon(ex_, a)), opaque_sort("std::string::String")))
        return f

    def dec(name, kind):
        def f(ex_, st, fr, callee, args):
            a = args[-1]
            while isinstance(a, Ref):
                a = ex_.get_at(st, a.box, a.path)
            nm = "%s(%s)" % (name, canon(ex_, a))
            if kind == "option":
                v = mk_sym(ex_.tc, "std::option::Option<std::vec::Vec<u8>>", nm)
            else:
                v = mk_sym(ex_.tc, "std::result::Result<std::vec::Vec<u8>, DecodeError>", nm)
            ln = z3.BitVec(nm + (".Some.0.len" if kind == "option" else ".Ok.0.len"), 64)
            ax = z3.ULE(ln, z3.BitVecVal(1 << 40, 64))
            if ax not in ex_.tc.assumptions:
                ex_.tc.assumptions.append(ax)
            return v
        return f
    o = ex.overrides
    o[r"^base32::encode$"] = enc("base32_encode")
    o[r"^base32::decode$"] = dec("base32_decode", "option")
    o[r"as Engine>::encode"] = enc("base64_encode")
    o[r"as Engine>::decode"] = dec("base64_decode", "result")
    o[r"^z85::encode"] = enc("z85_encode")
    o[r"^z85::decode"] = dec("z85_decode", "result")


def uninstall_codecs(ex):
    for k in [k for k in ex.overrides if "base32" in k or "Engine" in k or "z85" in k]:
        ex.overrides.pop(k)


ENC_SCEN = lambda w: (lambda m: {"lines": ["input 0a0b0c0d", "eval 4 bits drop 16 bits " + w, "stack"], "expect": [("no_panic",), ("last_result_in", ["ok"]), ("top_type", "str")]})
DEC_SCEN = lambda w: (lambda m: {"lines": ["eval || " + w.rstrip(">") + " " + w, "stack"], "expect": [("no_panic",), ("last_result_in", ["ok"]), ("top_type", "bitstr")]})


def encode_lemma(word):
    def body(L):
        install_codecs(L.ex)
        try:
            a = L.cell("a")
            pre = Pre(L, stack=[a])
            tgt = word_map(L.ex, "base_ext::load")[word][0]
            fn, args = word_call(L, tgt, pre.xs)
            # vectors need an unbounded flattening loop: excluded here (bitstr_concat's element kinds are C07's subject)
            pc = pre.pc + [untagged(L, a), a.discr != z3.BitVecVal(L.ex.enum_index("cell::Cell", "Vector"), 64)]
            outs = L.run(fn, args, pc, pre.roots())
            L.witness(outs, lambda o: o.kind == "return" and o.value.variant == "Ok", word + " succeeds on some input")
            s0, e0 = z3.BitVec("a.Bitstr.0.0.0", 64), z3.BitVec("a.Bitstr.0.0.1", 64)
            whole = z3.URem(e0 - s0, z3.BitVecVal(8, 64)) == 0
            for o in outs:
                if o.kind != "return":
                    L.fail(o, "%s must not panic: %s" % (word, (o.msg or "")[:80]))
                    continue
                S1 = final_state(L, o)
                va = variant_on_path(L, o, a)
                kind = L.result_kind(o)
                if kind[0] == "Err" and kind[1] in ("StackUnderflow", "ErrorMsg"):
                    continue
                if va == "Bitstr":
                    if kind[0] == "Ok":
                        ds1 = L.field(S1, "State", "data_stack")
                        top = ds1.items[-1] if ds1.items else None
                        L.require(o, z3.And(whole, z3.BoolVal(isinstance(top, Enum) and top.variant == "Str" and len(ds1.items) == 1)), word + ": pushes one string, only for whole bytes")
                    else:
                        L.require(o, z3.And(z3.Not(whole), z3.BoolVal(kind[1] == "ToBytestrError")),
                                  word + ": a bit-string is refused only when its length is not a multiple of 8 (any alignment is accepted)", cex=ENC_SCEN(word))
                elif va == "Str":
                    L.require(o, z3.BoolVal(kind[0] == "Ok"), word + ": strings are accepted (as >bitstr does)")
                elif va is not None:
                    L.require(o, z3.BoolVal(kind[0] == "Err" and kind[1] == "TypeNotSupported"), word + ": other types are refused like >bitstr refuses them")
        finally:
            uninstall_codecs(L.ex)
    return body


def decode_lemma(word):
    def body(L):
        install_codecs(L.ex)
        try:
            a = L.cell("a")
            pre = Pre(L, stack=[a])
            L.field(pre.S, "State", "stack_limit").variant = "None"      # no configured limit: every error is the word's own
            tgt = word_map(L.ex, "base_ext::load")[word][0]
            fn, args = word_call(L, tgt, pre.xs)
            outs = L.run(fn, args, pre.pc + [untagged(L, a)], pre.roots())
            L.witness(outs, lambda o: o.kind == "return" and o.value.variant == "Ok", word + " succeeds")
            bad_text = {"base32>": "\"1\"", "base32hex>": "\"U\"", "base64>": "\"*\"", "zero85>": "\"a\""}[word]
            nil_cex = lambda m: {"lines": ["eval %s %s" % (bad_text, word), "stack"], "expect": [("no_panic",), ("last_result_in", ["ok"]), ("top_in", [("nil", "nil")])]}
            for o in outs:
                if o.kind != "return":
                    L.fail(o, "%s must not panic: %s" % (word, (o.msg or "")[:80]))
                    continue
                S1 = final_state(L, o)
                va = variant_on_path(L, o, a)
                kind = L.result_kind(o)
                if kind[0] == "Err" and kind[1] == "StackUnderflow":
                    continue
                if va != "Str":
                    continue
                L.require(o, z3.BoolVal(kind[0] == "Ok"), word + ": never an error on a string (text the codec rejects yields nil)", cex=nil_cex)
                if kind[0] != "Ok":
                    continue
                ds1 = L.field(S1, "State", "data_stack")
                top = ds1.items[-1] if ds1.items else None
                L.require(o, z3.BoolVal(len(ds1.items) == 1 and ds1.prefix == pre.ds.prefix), word + ": consumes the string and pushes exactly one cell")
                # which decoder result was it on this path?
                accepted = None
                for c in o.st.pc:
                    sc = str(c)
                    mm = re.search(r"_decode\(.*\)\.discr == (\d+)", sc)
                    if mm:
                        d = int(mm.group(1))
                        accepted = (d == 1) if "base32" in sc else (d == 0)       # Option: Some=1; Result: Ok=0
                if accepted is None:
                    L.require(o, False, word + ": the outcome depends on the decoder's verdict")
                    continue
                if accepted:
                    L.require(o, z3.BoolVal(isinstance(top, Enum) and top.variant == "Bitstr"), word + ": text the codec accepts yields the decoded bytes (also when they are empty)", cex=DEC_SCEN(word))
                else:
                    L.require(o, z3.BoolVal(isinstance(top, Enum) and top.variant == "Nil"), word + ": text the codec rejects yields nil", cex=nil_cex)
        finally:
            uninstall_codecs(L.ex)
    return body


# ------------------------------------------------------------------------------------------------ C07 words

def pack_scenario(word, nbits, order):
    """native scenario: the word packs a fixed value while the *other* default byte order is active"""
    import struct
    nb = nbits // 8
    if word.startswith("f"):
        raw = struct.pack(">f" if nbits == 32 else ">d", 1.5)
        lit = "1.5"
    else:
        val = int.from_bytes(bytes(range(1, nb + 1)), "big")
        raw = val.to_bytes(nb, "big")
        lit = str(val)
    bytes_out = raw if order != "Little" else raw[::-1]
    default = {"Little": "big", "Big": "little", None: "big"}[order]
    exp = "|" + " ".join("%02X" % b for b in bytes_out) + "|"
    return lambda m: {"lines": ["eval %s %s %s" % (default, lit, word), "stack"], "expect": [("no_panic",), ("last_result_in", ["ok"]), ("cells_are", [("bitstr", exp)])]}


def pack_lemma(word, nbits, order):
    def body(L):
        cex = pack_scenario(word, nbits, order)
        v = L.cell("v")
        pre = c06.CursorPre(L, stack=[v])
        tgt = word_map(L.ex, "bitstr_ext::load")[word][0]
        fn, args = word_call(L, tgt, pre.xs)
        outs = L.run(fn, args, pre.pc + [untagged(L, v)], pre.roots())
        L.witness(outs, lambda o: o.kind == "return" and o.value.variant == "Ok", word + " succeeds")
        for o in outs:
            if o.kind != "return":
                L.fail(o, "%s must not panic: %s" % (word, (o.msg or "")[:80]))
                continue
            if o.value.variant != "Ok":
                continue
            S1 = final_state(L, o)
            ds1 = L.field(S1, "State", "data_stack")
            top = ds1.items[-1] if ds1.items else None
            okv = isinstance(top, Enum) and top.variant == "Bitstr" and len(ds1.items) == 1
            if not okv:
                L.require(o, False, word + ": pushes one bit-string", cex=cex)
                continue
            bs = L.payload(top, 0, "bitstr::Bitstr")
            s, e = c06.rng_of(L, bs)
            data = L.field(bs, "Bitstr", "data")
            nm = data.box.name
            L.require(o, e - s == z3.BitVecVal(nbits, 64), "%s: the packed field is exactly %d bits wide" % (word, nbits), cex=cex)
            want = "from_int(v.Int.0,%d," % nbits if not word.startswith("f") else "from_f%d(" % nbits
            L.require(o, z3.BoolVal(nm.startswith(want)), "%s: the field is from_*(popped value, %d, byte order) - got %s" % (word, nbits, nm[:60]), cex=cex)
            if order is not None:
                L.require(o, z3.BoolVal(nm.rstrip(").data").endswith(order)), "%s: packed with byte order %s - got %s" % (word, order, nm[-40:]), cex=cex)
    return body


def emit_lemma(L):
    bs_cell = L.cell("e")
    pre = c06.CursorPre(L, stack=[bs_cell])
    # interception on: `output` holds a bit-string, `output-length` an integer
    out_bs = L.sym("bitstr::Bitstr", "out")
    out_cell = Enum("cell::Cell", "Bitstr", Struct("cell::Cell::Bitstr", {0: out_bs}))
    olen = z3.BitVec("olen", 128)
    pre.set_slot("output", out_cell)
    pre.set_slot("output_len", Enum("cell::Cell", "Int", Struct("cell::Cell::Int", {0: Int(olen, 128, True)})))
    pre.pc += [olen >= 0, olen < z3.BitVecVal(1 << 60, 128)]
    outs = L.run("word_emit", [pre.xs], pre.pc + [untagged(L, bs_cell)], pre.roots())
    L.witness(outs, lambda o: o.kind == "return" and o.value.variant == "Ok", "emit succeeds")
    cex = lambda m: {"lines": ["intercept on", "eval |FF| emit |F| emit |AA| emit", "eval output |FFFAA| equal? output-length", "stack"],
                     "expect": [("no_panic",), ("last_result_in", ["ok"]), ("top_in", [("int", "20")]), ("second_in", [("flag", "true")])]}
    for o in outs:
        if o.kind != "return":
            L.fail(o, "emit must not panic: %s" % (o.msg or "")[:80])
            continue
        if o.value.variant != "Ok":
            continue
        S1 = final_state(L, o)
        no, nl = pre.slot(S1, "output"), pre.slot(S1, "output_len")
        es, ee = z3.BitVec("e.Bitstr.0.0.0", 64), z3.BitVec("e.Bitstr.0.0.1", 64)
        if not (isinstance(no, Enum) and no.variant == "Bitstr" and isinstance(nl, Enum) and nl.variant == "Int"):
            L.require(o, False, "emit: output stays a bit-string and output-length an integer", cex=cex)
            continue
        L.require(o, L.payload(nl, 0, "i128").t == olen + z3.ZeroExt(64, ee - es), "emit: output-length grows by the emitted length", cex=cex)
        nb = L.payload(no, 0, "bitstr::Bitstr")
        nm = L.field(nb, "Bitstr", "data").box.name
        io, ie = nm.find("out."), nm.find("e.Bitstr")
        L.require(o, z3.BoolVal(nm.startswith("append(") and 0 <= io < ie), "emit: output' is output.append(emitted) (receiver = old output, tail = emitted) - got %s" % nm[:70], cex=cex)
        s, e = c06.rng_of(L, nb)
        os_, oe_ = c06.rng_of(L, out_bs)
        L.require(o, e - s == (oe_ - os_) + (ee - es), "emit: output grows by exactly the emitted bits", cex=cex)


def run(L, tier, only=None):
    L.ex.path_budget = 6000
    for w in ("base32", "base32hex", "base64", "zero85"):
        if not only or w in only or "encode" in only:
            L.lemma("C18 " + w, encode_lemma(w))
    for w in ("base32>", "base32hex>", "base64>", "zero85>"):
        if not only or w in only or "decode" in only:
            L.lemma("C18 " + w, decode_lemma(w))
    L.ex.path_budget = None


VERIFIED_BITSTR_FNS = {
    # decided by the E1 families of C04 / C05 / C07 (bit-level behaviour against the bit-sequence model)
    "new", "from", "substr", "seek", "read", "peek", "split_at", "detach", "append", "insert", "invert", "eq_with", "eq", "ne", "bits", "iter8",
    "to_bytes", "to_bytes_with_padding", "bytestr", "slice", "len", "start", "end", "is_bytestr", "is_u8_slice", "bytes_range", "bits_range",
    "from_int", "to_uint", "to_int", "from_f32", "to_f32", "from_f64", "to_f64", "clone", "default", "fmt", "next", "into_iter",
    # BitvecBuilder: run for real (not summarised) by the C16 lexer lemmas
    "append_bit", "finish",
    # present in the original tree, text conversions outside E1's reach (stated in DESIGN.md) - not new code
    "from_hex_str", "to_hex_string", "from_bin_str",
}


def bitlevel_scan(L):
    """MIR scan tying E2 to E1: the words of bitstr_ext.rs are decided in E2 with bitstr.rs summarised, which is sound
    only for the bitstr.rs functions E1 has decided. Any other bitstr.rs function called from bitstr_ext.rs (new
    bit-level code on the construction / parsing path) is reported, with a native scenario that builds and emits
    records at non-byte positions."""
    import re as _re
    from e2.lemma import Obligation
    ex = L.ex
    bad = {}
    n = 0
    for name, f in ex.funcs.items():
        # every function outside bitstr.rs's own impl blocks (module-level functions are printed without their module)
        if name.startswith(("bitstr::", "const ", "promoted")) or "tests::" in name or "verif_hooks" in name:
            continue
        n += 1
        for b in f.blocks.values():
            t = b.term
            if not t or t[0] != "call":
                continue
            cal = t[2]
            m = _re.search(r"(?:^|[<\s])(?:bitstr::)?(?:Bitstr|BitvecBuilder)::(\w+)", cal) or _re.search(r"^<(?:bitstr::)?Bitstr as [^>]*>::(\w+)", cal)
            if m and m.group(1) not in VERIFIED_BITSTR_FNS:
                bad.setdefault(m.group(1), set()).add(ex._last_seg(name))
    if n == 0:
        L.undecided.append((L.cur, "VACUOUS scan: no bitstr_ext function found"))
    scen = {"lines": ["eval [ |x.x| 0xab \"A\" |f| ] >bitstr", "stack", "eval drop", "intercept on", "eval |x.x| emit 0xab u8! emit |41| emit |f| emit output", "stack"],
            "expect": [("no_panic",), ("last_result_in", ["ok"]), ("stacks_equal", [0, 1]), ("cells_are", [("bitstr", "|B5 68 3xxx|")])]}
    if bad:
        for fn_, callers in sorted(bad.items()):
            ob = Obligation(L.cur, "bit-strings are built / parsed only through the bit-level functions decided by E1 (unverified: Bitstr::%s, called from %s)" % (fn_, sorted(callers)),
                            "violated", model={}, detail="MIR scan")
            ob.scenario = scen
            L.obligations.append(ob)
    else:
        L.obligations.append(Obligation(L.cur, "MIR scan: every Bitstr / BitvecBuilder function called from outside bitstr.rs (%d functions scanned) is in the E1-decided set" % n, "holds"))


def run_c07(L, tier, only=None):
    L.ex.path_budget = 6000
    if not only or "scan" in only:
        L.lemma("C07 bit-level functions used by the words", bitlevel_scan)
    packs = [("u8!", 8, None), ("i16le!", 16, "Little"), ("u32be!", 32, "Big"), ("i64!", 64, None), ("f64le!", 64, "Little"), ("f32be!", 32, "Big")]
    for w, n, order in packs:
        if not only or w in only or "pack" in only:
            L.lemma("C07 " + w, pack_lemma(w, n, order))
    if not only or "emit" in only:
        L.lemma("C07 emit (interception on)", emit_lemma)
    L.ex.path_budget = None
