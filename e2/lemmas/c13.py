"""C13: tags never change what a value does (relational lemma).

For a word W and an argument position i, W's real MIR is run twice from the same symbolic pre-state:
once with the plain cell v at position i, once with WithTag{tags: t, value: v} (same symbolic v, arbitrary
tag map t). For every joint case (same variants of all operands) both runs must end the same way
(Ok / same error kind) and push results that are equal under the language's equality; computed results
carry no tags. Tag words themselves are checked against the map-attached-to-a-value model."""
import z3
from e2.values import *
from e2.lemma import word_map, word_call
from e2.prestate import *
from e2.symex import veq, veq_modtags
from e2.scen import *

# (loader, word, arity) - words that must be tag transparent
WORDS = [("arith::load", w, 2) for w in ["+", "-", "*", "/", "rem", "min", "max", "<", "<=", ">", ">=", "==", "<>", "band", "bor", "bxor", "bsl", "bsr", "and", "or", "xor"]] + \
        [("arith::load", w, 1) for w in ["neg", "abs", "bnot", "popcnt", "round", ">int", ">real", "zero?", "positive?", "negative?", "not"]] + \
        [("load_core", w, a) for w, a in [("length", 1), ("nth", 2), ("get", 2), ("push", 2), ("insert", 3), ("remove", 2), ("equal?", 2), ("nil?", 1),
                                          ("assert", 1), ("dup", 1), ("drop", 1), ("swap", 2)]] + \
        [("bitstr_ext::load", w, 1) for w in ["bits", "bytes", "seek", "int", "uint", "bitstr-len", ">b", ">kb", "open-bitstr"]]


# the every-change subset: one representative per implementation family and argument position
QUICK = {("+", 0), ("+", 1), ("<", 0), ("==", 1), ("band", 0), ("bsl", 1), ("and", 0), ("neg", 0), ("round", 0), ("zero?", 0), ("not", 0),
         ("length", 0), ("nth", 0), ("nth", 1), ("get", 1), ("remove", 0), ("remove", 1), ("equal?", 0),
         ("bits", 0), ("seek", 0), ("open-bitstr", 0)}


def strip_tag(L, c):
    """value() of a concretised cell"""
    if isinstance(c, Enum) and c.variant == "WithTag":
        rc = L.payload(c, 0, "std::rc::Rc<cell::WithTag>")
        wt = L.deref(rc)
        return L.field(wt, "WithTag", "value", "cell::Cell")
    return c


def tagged(L, v, name):
    tags = L.sym("rpds::RedBlackTreeMap<cell::Cell, cell::Cell>", name + ".tags")
    wt = Struct("cell::WithTag", {0: tags, 1: v})
    rc = Ref(Box(wt, name=name + ".rc"))
    return Enum("cell::Cell", "WithTag", Struct("cell::Cell::WithTag", {0: rc}))


def classify(L, o, cells):
    """bucket key: variants of the operand cells on this path (None = not inspected)"""
    return tuple(variant_on_path(L, o, c) for c in cells)


def outcome_sig(L, o):
    if o.kind != "return":
        return ("panic", (o.msg or "")[:60])
    v = o.value
    if isinstance(v, Enum) and v.variant == "Err" and v.payload is not None and isinstance(v.payload.fields.get(0), Enum) and v.payload.fields[0].variant is None:
        e = v.payload.fields[0]
        return ("Err", "symbolic:" + str(e.origin))          # an arbitrary error value (stubbed callee): identified by its name
    if isinstance(v, Enum) and v.variant == "Err" and (v.payload is None or 0 not in v.payload.fields):
        return ("Err", "symbolic:" + str(v.origin))
    k = L.result_kind(o)
    return ("Ok",) if k[0] == "Ok" else ("Err", k[1])


def relational_lemma(loader, word, arity, pos):
    def body(L):
        wm = word_map(L.ex, loader)
        target = wm[word][0]
        names = ["c", "b", "a"][3 - arity:]
        if loader == "bitstr_ext::load" and word not in ("bitstr-len", ">b", ">kb"):
            from e2.lemmas import c06
            c06.install_overrides(L.ex)
            mk = lambda stack: c06.CursorPre(L, stack=stack)
        else:
            mk = lambda stack: Pre(L, stack=stack)
        plain = [L.cell(n) for n in names]
        pc_untag = [untagged(L, c) for c in plain]
        # run 1: all operands plain
        pre1 = mk(list(plain))
        fn, args1 = word_call(L, target, pre1.xs)
        outs1 = L.run(fn, args1, pre1.pc + pc_untag, pre1.roots())
        # run 2: operand `pos` wrapped in an arbitrary tag map
        stack2 = list(plain)
        stack2[pos] = tagged(L, plain[pos], names[pos])
        pre2 = mk(stack2)
        fn, args2 = word_call(L, target, pre2.xs)
        outs2 = L.run(fn, args2, pre2.pc + pc_untag, pre2.roots())
        b1, b2 = {}, {}
        for o in outs1:
            b1.setdefault(classify(L, o, plain), []).append(o)
        for o in outs2:
            b2.setdefault(classify(L, o, plain), []).append(o)

        def compatible(k1, k2):
            return all(x is None or y is None or x == y for x, y in zip(k1, k2))
        checked = 0
        for k2, os2 in b2.items():
            for o2 in os2:
                s2 = outcome_sig(L, o2)
                if s2[0] == "panic":
                    L.fail(o2, "`%s` with a tagged argument %d must not panic: %s" % (word, pos, s2[1]))
                    continue
                # every plain run that is possible for the same inputs must end the same way
                partners = [o1 for k1, os1 in b1.items() if compatible(k1, k2) for o1 in os1]
                for o1 in partners:
                    s1 = outcome_sig(L, o1)
                    if s1 == s2:
                        if s2[0] == "Ok" and L.jointly_feasible(o1, o2):
                            checked += 1
                            compare_results(L, word, pos, pre1, pre2, o1, o2)
                        elif s2[0] != "Ok":
                            checked += 1
                        continue

                    def cex(m, names=names):
                        lines = [cell_push_line(m, n) for n in names]
                        tl = list(lines)
                        tl[pos] = tl[pos].replace("push ", "push tagged ", 1)
                        return {"lines": lines + ["eval " + word, "stack", "eval depth collect drop"] + tl + ["eval " + word, "stack"],
                                "expect": [("no_panic",), ("results_same_kind", [0, 2])]}
                    checked += 1
                    # the two runs disagree: that is only fine if they can never happen for the same inputs
                    L.require(o2, False, "`%s`: tagging argument %d changes the outcome from %s to %s" % (word, pos, s1, s2),
                              extra_pc=list(o1.st.pc), cex=cex)
        if checked == 0:
            L.undecided.append((L.cur, "VACUOUS: no comparable pair of runs"))
    return body


def compare_results(L, word, pos, pre1, pre2, o1, o2):
    S1, S2 = final_state(L, o1), final_state(L, o2)
    d1, d2 = L.field(S1, "State", "data_stack"), L.field(S2, "State", "data_stack")
    if len(d1.items) != len(d2.items):
        L.require(o2, False, "`%s`: same number of results with and without tags on argument %d" % (word, pos), extra_pc=list(o1.st.pc))
        return
    conds = []
    for x, y in zip(d1.items, d2.items):
        if not (isinstance(x, Enum) and isinstance(y, Enum) and x.variant is not None and y.variant is not None):
            continue
        # pass-through words may return the (tagged) argument itself; compare values, as `equal?` does
        conds.append(veq_modtags(L.ex, x, y))
    if conds:
        L.require(o2, z3.And(*conds), "`%s`: results equal (modulo tags) with and without tags on argument %d" % (word, pos), extra_pc=list(o1.st.pc))


def with_tags_lemma():
    """Cell::with_tags / value: the wrapper never nests and never alters the value."""
    def body(L):
        c = L.cell("c")
        tags = L.sym("rpds::RedBlackTreeMap<cell::Cell, cell::Cell>", "t")
        r = Ref(Box(c, name="cbox"))
        fn = L.fn("with_tags")
        outs = L.run(fn, [r, tags], [], {"c": r})
        L.witness(outs, lambda o: o.kind == "return", "with_tags returns")
        for o in outs:
            if o.kind != "return":
                L.fail(o, "Cell::with_tags must not panic")
                continue
            res = o.value
            vc = variant_on_path(L, o, c)
            if not (isinstance(res, Enum) and res.variant == "WithTag"):
                L.require(o, False, "with_tags returns a tagged cell")
                continue
            inner = strip_tag(L, res)
            iv = inner.variant if inner.variant is not None else variant_on_path(L, o, inner)

            def cex(m):
                return {"lines": [cell_push_line(m, "c").replace("push ", "push tagged ", 1) if True else "", "eval { } with-tags 1 +", "stack"],
                        "expect": [("no_panic",), ("last_result_in", ["ok", "err TypeErrorMsg"])]}
            L.require(o, z3.Not(L.is_variant(inner, "WithTag")), "with_tags never nests wrappers: the stored value is untagged (receiver variant %s)" % vc,
                      cex=lambda m: {"lines": ["push tagged int 1", "eval { } with-tags 1 +", "stack"], "expect": [("no_panic",), ("last_result_in", ["ok"])]})
            # stored value == value() of the receiver
            src = strip_tag(L, c) if vc == "WithTag" else c
            if vc == "WithTag":
                # receiver concretised only on this path: take it from the path's memory
                cc = L.ex.get_at(None, o.st.ghost["roots"]["c"].box, o.st.ghost["roots"]["c"].path)
                src = strip_tag(L, cc)
            L.require(o, veq(L.ex, inner, src), "with_tags keeps the value unchanged")
    return body


def run(L, tier, only=None):
    L.ex.path_budget = 5000
    quick = tier == "quick"
    budget0 = L.lemma_time_budget
    if not quick:
        L.lemma_time_budget = 1800.0      # the cursor words with a tagged size (int / uint) need ~6 min each on an idle machine
    run_structural(L, only)
    for loader, word, arity in WORDS:
        if only and word not in only:
            continue
        positions = range(arity)
        for pos in positions:
            if quick and not only and (word, pos) not in QUICK:
                continue
            L.lemma("C13 %s arg%d" % (word, pos), relational_lemma(loader, word, arity, pos))
    L.ex.path_budget = None
    L.lemma_time_budget = budget0


def join_lemma(L):
    """concat / join of a vector whose element is a string: the text built is the same whether or not that element
    carries tags (the real join_str_vec on the text model: the string is K symbolic characters)"""
    from e2.strmodel import mk_text, StrBuf
    txt, cons = mk_text("js", 2)
    plain = Enum("cell::Cell", "Str", Struct("cell::Cell::Str", {0: txt}))
    fn = [f for n_, f in L.ex.funcs.items() if n_.endswith("join_str_vec") and "tests" not in n_][0]
    none_sep = Enum("std::option::Option<arcstr::ArcStr>", "None", None)
    results = []
    L.ex.string_model = True
    try:
        for elem in (plain, tagged(L, clone_val(plain), "je")):
            pre = Pre(L, stack=[])
            vec = Vec("cell::Cell", None, [elem])
            outs = L.run(fn, [pre.xs, Ref(Box(vec, name="jvec")), Ref(Box(none_sep, name="jsep"))], pre.pc + cons, pre.roots())
            results.append(outs)
    finally:
        L.ex.string_model = False
    L.witness(results[0], lambda o: o.kind == "return" and o.value.variant == "Ok", "join of a string element succeeds")
    cex = lambda m: {"lines": ["eval [ \"ab\" ] concat", "stack", "eval drop [ \"ab\" ^{ 1 \"t\" ^} ] concat", "stack"], "expect": [("no_panic",), ("stacks_equal", [0, 1])]}
    for o1 in results[0]:
        for o2 in results[1]:
            if o1.kind != "return" or o2.kind != "return":
                continue
            if o1.value.variant != o2.value.variant:
                L.require(o2, False, "join: same outcome with and without tags on a string element", extra_pc=list(o1.st.pc), cex=cex)
                continue
            if o1.value.variant == "Ok":
                a, b = o1.value.payload.fields[0], o2.value.payload.fields[0]
                if not (isinstance(a, StrBuf) and isinstance(b, StrBuf)):
                    raise Unsupported("join result is not a modelled string: %r / %r" % (a, b))
                L.require(o2, veq(L.ex, a, b), "join: the text built is the same with and without tags on a string element", extra_pc=list(o1.st.pc), cex=cex)


def run_structural(L, only):
    if not only or "join" in only:
        L.lemma("C13 concat/join see through tags on string elements", join_lemma)
    if not only or "with-tags" in only:
        L.lemma("C13 with_tags", with_tags_lemma())
    if not only or "order" in only:
        # the order used by sort and by map keys sees through tags (shared with C12)
        from e2.lemmas import c12
        for side in (0, 1):
            L.lemma("C13 order and equality see through tags (operand %d)" % side, c12.ord_tag_lemma(side))
