"""C12 (order laws): the map and sort use Ord for Cell; a red-black tree keyed by it is a finite map keyed by
`equal?` only if cmp(a, b) == Equal exactly when a == b. Both are the real MIR of cell.rs, run on two
arbitrary cells."""
import z3
from e2.values import *
from e2.prestate import *
from e2.symex import veq
from e2.scen import *


def ord_eq_lemma(L):
    a, b = L.cell("a"), L.cell("b")
    ra, rb = Ref(Box(a, name="abox")), Ref(Box(b, name="bbox"))
    pc = [untagged(L, a), untagged(L, b)]
    # non-NaN reals, as the property says
    for n in ("a", "b"):
        pc.append(z3.Not(z3.fpIsNaN(real_payload(n))))
    cmp_fn = [f for nme, f in L.ex.funcs.items() if nme.endswith("::cmp") and "src/cell.rs" in nme][0]
    eq_fn = [f for nme, f in L.ex.funcs.items() if nme.endswith("::eq") and "src/cell.rs" in nme and f.params and strip_ty(f.params[0][1]) == "&cell::Cell"][0]
    outs_c = L.run(cmp_fn, [ra, rb], pc, {"a": ra, "b": rb})
    outs_e = L.run(eq_fn, [ra, rb], pc, {"a": ra, "b": rb})
    L.witness(outs_c, lambda o: o.kind == "return", "cmp returns")
    by = {}
    for o in outs_e:
        if o.kind != "return":
            L.fail(o, "Cell::eq must not panic")
            continue
        by.setdefault((variant_on_path(L, o, a), variant_on_path(L, o, b)), []).append(o)
    for oc in outs_c:
        if oc.kind != "return":
            L.fail(oc, "Cell::cmp must not panic")
            continue
        va, vb = variant_on_path(L, oc, a), variant_on_path(L, oc, b)
        is_equal = oc.value.variant == "Equal"
        for (ea, eb), oes in by.items():
            if (ea is not None and va is not None and ea != va) or (eb is not None and vb is not None and eb != vb):
                continue
            for oe in oes:
                eqt = oe.value.t

                def cex(m, va=va, vb=vb):
                    la, lb = cell_push_line(m, "a"), cell_push_line(m, "b")
                    return {"lines": ["push map", "push int 1", la, "eval insert", "push int 2", lb, "eval insert", la, "eval get", "stack"],
                            "expect": [("no_panic",), ("last_result_in", ["ok"]), ("top_in", [("int", "1")])]}
                L.require(oc, eqt == z3.BoolVal(is_equal), "cmp(a, b) == Equal exactly when a == b (a: %s, b: %s; cmp says %s)" % (va, vb, oc.value.variant),
                          extra_pc=list(oe.st.pc), cex=cex if is_equal else None)


def antisym_lemma(L):
    a, b = L.cell("a"), L.cell("b")
    ra, rb = Ref(Box(a, name="abox")), Ref(Box(b, name="bbox"))
    pc = [untagged(L, a), untagged(L, b)] + [z3.Not(z3.fpIsNaN(real_payload(n))) for n in ("a", "b")]
    cmp_fn = [f for nme, f in L.ex.funcs.items() if nme.endswith("::cmp") and "src/cell.rs" in nme][0]
    o1 = L.run(cmp_fn, [ra, rb], pc, {})
    o2 = L.run(cmp_fn, [rb, ra], pc, {})
    flip = {"Less": "Greater", "Greater": "Less", "Equal": "Equal"}
    for x in o1:
        for y in o2:
            if x.kind == "return" and y.kind == "return" and x.value.variant != flip[y.value.variant]:
                L.require(x, False, "cmp is antisymmetric: cmp(a,b)=%s but cmp(b,a)=%s" % (x.value.variant, y.value.variant), extra_pc=list(y.st.pc))
    L.witness(o1, lambda o: o.kind == "return" and o.value.variant == "Less", "cmp can say Less")


def ord_tag_lemma(side):
    """tags are transparent for the order and for equality: cmp / eq of a tagged value answer what they answer
    for the value itself (otherwise tagged map keys collide and sort leaves tagged elements alone)"""
    def body(L):
        from e2.lemmas.c13 import tagged
        a, b = L.cell("a"), L.cell("b")
        pc = [untagged(L, a), untagged(L, b)] + [z3.Not(z3.fpIsNaN(real_payload(n))) for n in ("a", "b")]
        ta = tagged(L, a, "ta")
        plain = (Ref(Box(a, name="abox")), Ref(Box(b, name="bbox")))
        tag = (Ref(Box(ta, name="tabox")), plain[1]) if side == 0 else (plain[1], Ref(Box(ta, name="tabox")))
        if side == 1:
            plain = (plain[1], plain[0])
        for nm, pick in (("cmp", lambda n_, f: n_.endswith("::cmp") and "src/cell.rs" in n_),
                         ("eq", lambda n_, f: n_.endswith("::eq") and "src/cell.rs" in n_ and f.params and strip_ty(f.params[0][1]) == "&cell::Cell")):
            fn = [f for n_, f in L.ex.funcs.items() if pick(n_, f)][0]
            o1 = L.run(fn, list(plain), pc, {})
            o2 = L.run(fn, list(tag), pc, {})
            L.witness(o2, lambda o: o.kind == "return", nm + " on a tagged operand returns")
            desc = lambda o: (o.value.variant if isinstance(o.value, Enum) else None)

            def cex(m):
                la = cell_push_line(m, "a")
                lb = cell_push_line(m, "b")
                tl = la.replace("push ", "push tagged ", 1)
                first, second = (tl, lb) if side == 0 else (lb, tl)
                return {"lines": ["push map", "push int 1", first, "eval insert", "push int 2", second, "eval insert", "eval length", "stack"],
                        "expect": [("no_panic",), ("last_result_in", ["ok"]), ("top_in", [("int", "2")])]}
            for x in o1:
                for y in o2:
                    if x.kind != "return" or y.kind != "return":
                        if y.kind != "return":
                            L.fail(y, nm + " on a tagged operand must not panic")
                        continue
                    if nm == "cmp":
                        if desc(x) != desc(y):
                            L.require(y, False, "cmp of a tagged value (operand %d) answers %s where the value itself answers %s" % (side, desc(y), desc(x)),
                                      extra_pc=list(x.st.pc), cex=cex if desc(y) == "Equal" else None)
                    else:
                        L.require(y, x.value.t == y.value.t, "== of a tagged value (operand %d) answers what the value itself answers" % side, extra_pc=list(x.st.pc))
    return body


def collect_lemma(L):
    """`collect` with n in 0..=2 on a stack with exactly 2 visible cells above an arbitrary hidden part: the new vector
    holds exactly the top n visible cells in stack order, everything below them stays, hidden cells are never taken"""
    from e2.lemma import word_map, word_call
    x0, x1, n = L.cell("x0"), L.cell("x1"), L.cell("n")
    pre = Pre(L, stack=[x0, x1, n])
    nv = int_payload("n")
    pc = pre.pc + [pre.ds_len.t == pre.n0, n.discr == CELL_VARIANTS.index("Int"), nv >= 0, nv <= 3]
    L.field(pre.S, "State", "stack_limit").variant = "None"
    fn, args = word_call(L, word_map(L.ex, "load_core")["collect"][0], pre.xs)
    outs = L.run(fn, args, pc, pre.roots())
    L.witness(outs, lambda o: o.kind == "return" and o.value.variant == "Ok", "collect succeeds")
    cex = lambda m: {"lines": ["eval 7 8", "eval #( 1 2 2 collect #)", "stack"], "expect": [("no_panic",), ("last_result_in", ["ok"]), ("depth", 3)]}
    for o in outs:
        if o.kind != "return":
            L.fail(o, "collect must not panic", cex=cex)
            continue
        S1 = final_state(L, o)
        ds1 = L.field(S1, "State", "data_stack")
        if o.value.variant != "Ok":
            L.require(o, nv == 3, "collect fails only when more cells are asked for than are visible", cex=cex)
            continue
        for k, taken in ((0, []), (1, [x1]), (2, [x0, x1])):
            if not L.feasible(o, nv == k):
                continue
            rest = [x0, x1][:2 - k]
            exp_vec = Enum("cell::Cell", "Vector", Struct("cell::Cell::Vector", {0: Vec("cell::Cell", None, list(taken))}))
            L.require(o, veq(L.ex, ds1, Vec(ds1.elem_ty, pre.ds.prefix, rest + [exp_vec])), "collect of %d: the vector holds the top %d visible cells, the rest of the stack (hidden part included) is untouched" % (k, k),
                      extra_pc=[nv == k], cex=cex)


def _word(L, w):
    from e2.lemma import word_map, word_call
    return word_map(L.ex, "load_core")[w][0]


def map_words_lemma(L):
    """insert / get / remove on a map cell agree with an association list: the real words are chained on the model of the
    persistent map (base + written entries): after `insert` the key maps to the value and the original map cell is
    untouched; `get` of that key gives the value; after `remove` the same `get` gives nil."""
    from e2.lemma import word_call
    k, v = L.cell("k"), L.cell("v")
    m0 = PMap("rpds::RedBlackTreeMap<cell::Cell, cell::Cell>", z3.Const("m0", opaque_sort("rpds::RedBlackTreeMap")), [])
    mc = Enum("cell::Cell", "Map", Struct("cell::Cell::Map", {0: m0}))
    keep = clone_val(mc)                               # a second reference to the same map value, lower on the stack
    pre = Pre(L, stack=[keep, mc, v, k])
    L.field(pre.S, "State", "stack_limit").variant = "None"
    pc = pre.pc + [pre.ds_len.t == pre.n0, untagged(L, k), untagged(L, v)]
    fn, args = word_call(L, _word(L, "insert"), pre.xs)
    outs = L.run(fn, args, pc, pre.roots())
    L.witness(outs, lambda o: o.kind == "return" and o.value.variant == "Ok", "insert succeeds")
    cex = lambda m: {"lines": ["eval { } dup 5 \"k\" insert dup \"k\" get", "stack", "eval drop \"k\" remove \"k\" get", "stack"],
                     "expect": [("no_panic",), ("last_result_in", ["ok"]), ("cells_are", [("nil", "nil"), ("map", "{ }")]), ("first_cells_are", [("int", "5"), ("map", "{ 5 \"k\" }"), ("map", "{ }")])]}
    for o in outs:
        if o.kind != "return" or o.value.variant != "Ok":
            if o.kind != "return":
                L.fail(o, "insert must not panic")
            continue
        S1 = final_state(L, o)
        ds1 = L.field(S1, "State", "data_stack")
        if not L.require(o, z3.BoolVal(len(ds1.items) == 2), "insert leaves the other map reference and pushes one result", cex=cex):
            continue
        L.require(o, veq(L.ex, ds1.items[0], keep), "insert does not change a map that is still referenced elsewhere", cex=cex)
        res = ds1.items[1]
        okm = isinstance(res, Enum) and res.variant == "Map" and isinstance(res.payload.fields[0], PMap)
        if not L.require(o, z3.BoolVal(okm), "insert pushes a map", cex=cex):
            continue
        pm = res.payload.fields[0]
        L.require(o, z3.BoolVal(len(pm.entries) == 1 and str(pm.base) == "m0"), "the new map is the old one plus exactly one entry", cex=cex)
        if len(pm.entries) == 1:
            L.require(o, z3.And(veq(L.ex, pm.entries[0][0], k), veq(L.ex, pm.entries[0][1], v)), "the entry written is (key, value) in that order", cex=cex)
        # get the key back
        xs1 = o.st.ghost["roots"]["xs"]
        ds1.items.append(clone_val(k))
        fn2, args2 = word_call(L, _word(L, "get"), xs1)
        for o2 in L.run(fn2, args2, list(o.st.pc), {"xs": xs1}):
            if o2.kind != "return":
                L.fail(o2, "get must not panic")
                continue
            if not L.require(o2, z3.BoolVal(o2.value.variant == "Ok"), "get on a map succeeds", cex=cex):
                continue
            S2 = final_state(L, o2)
            d2 = L.field(S2, "State", "data_stack")
            L.require(o2, z3.BoolVal(len(d2.items) == 2) if len(d2.items) != 2 else veq(L.ex, d2.items[1], v), "get after insert gives the inserted value", cex=cex)


def remove_get_lemma(L):
    from e2.lemma import word_call
    k, v = L.cell("k"), L.cell("v")
    pm = PMap("rpds::RedBlackTreeMap<cell::Cell, cell::Cell>", z3.Const("m0", opaque_sort("rpds::RedBlackTreeMap")), [(k, v)])
    mc = Enum("cell::Cell", "Map", Struct("cell::Cell::Map", {0: pm}))
    pre = Pre(L, stack=[mc, clone_val(k)])
    L.field(pre.S, "State", "stack_limit").variant = "None"
    pc = pre.pc + [pre.ds_len.t == pre.n0, untagged(L, k), untagged(L, v)]
    fn, args = word_call(L, _word(L, "remove"), pre.xs)
    for o in L.run(fn, args, pc, pre.roots()):
        if o.kind != "return":
            L.fail(o, "remove must not panic")
            continue
        if not L.require(o, z3.BoolVal(o.value.variant == "Ok"), "remove on a map succeeds"):
            continue
        S1 = final_state(L, o)
        ds1 = L.field(S1, "State", "data_stack")
        res = ds1.items[-1] if ds1.items else None
        okm = isinstance(res, Enum) and res.variant == "Map" and isinstance(res.payload.fields[0], PMap)
        if not L.require(o, z3.BoolVal(okm and len(ds1.items) == 1), "remove pushes one map"):
            continue
        L.require(o, z3.BoolVal(len(res.payload.fields[0].entries) == 0), "remove drops the entry of that key")
        L.require(o, z3.BoolVal(len(pm.entries) == 1), "remove does not change the map it was given (still referenced elsewhere)")


def push_nth_lemma(L):
    """push appends at the end without touching the vector it was given; nth of the last index gives the pushed cell"""
    from e2.lemma import word_call
    x, a0, a1 = L.cell("x"), L.cell("a0"), L.cell("a1")
    vec = Vec("cell::Cell", None, [a0, a1])
    vc = Enum("cell::Cell", "Vector", Struct("cell::Cell::Vector", {0: vec}))
    keep = clone_val(vc)
    pre = Pre(L, stack=[keep, x, vc])
    L.field(pre.S, "State", "stack_limit").variant = "None"
    pc = pre.pc + [pre.ds_len.t == pre.n0]
    fn, args = word_call(L, _word(L, "push"), pre.xs)
    cex = lambda m: {"lines": ["eval [ 1 2 ] dup 3 swap push", "stack"], "expect": [("no_panic",), ("cells_are", [("vec", "[ 1 2 3 ]"), ("vec", "[ 1 2 ]")])]}
    for o in L.run(fn, args, pc, pre.roots()):
        if o.kind != "return":
            L.fail(o, "push must not panic", cex=cex)
            continue
        if not L.require(o, z3.BoolVal(o.value.variant == "Ok"), "push on a vector succeeds", cex=cex):
            continue
        S1 = final_state(L, o)
        ds1 = L.field(S1, "State", "data_stack")
        if not L.require(o, z3.BoolVal(len(ds1.items) == 2), "push leaves one result above the other reference", cex=cex):
            continue
        L.require(o, veq(L.ex, ds1.items[0], keep), "push does not change a vector that is still referenced elsewhere", cex=cex)
        exp = Enum("cell::Cell", "Vector", Struct("cell::Cell::Vector", {0: Vec("cell::Cell", None, [a0, a1, x])}))
        L.require(o, veq(L.ex, ds1.items[1], exp), "push appends the cell at the end", cex=cex)


def str_slice_lemma(K):
    """the real slice_str on a text of K arbitrary characters (multi-byte included) and arbitrary isize bounds: the
    result is the sub-sequence of *characters* [i, j) of the sequence model (negative = from the end, clamped)"""
    def body(L):
        from e2.strmodel import mk_text, StrBuf, Text
        txt, cons = mk_text("s", K)
        a, b = z3.BitVec("start", 64), z3.BitVec("end", 64)
        fn = [f for n_, f in L.ex.funcs.items() if n_.endswith("slice_str") and "tests" not in n_][0]
        L.ex.string_model = True
        try:
            outs = L.run(fn, [Ref(Box(txt, name="sbox")), Int(a, 64, True), Int(b, 64, True)], cons, {})
        finally:
            L.ex.string_model = False
        L.witness(outs, lambda o: o.kind == "return", "slice_str returns")
        kk = z3.BitVecVal(K, 64)

        def idx(t):          # the sequence model's index: negative counts from the end, everything clamped to [0, K]
            neg = t < 0
            mag = z3.If(neg, -t, t)
            magc = z3.If(z3.ULT(mag, kk), mag, kk)
            return z3.If(neg, kk - magc, magc)
        i, j = idx(a), idx(b)

        def cex(m):
            text = "".join(chr(m.eval(c, model_completion=True).as_long()) for c in txt.sym.chars)
            sv = lambda t: (lambda v: v - (1 << 64) if v >> 63 else v)(m.eval(t, model_completion=True).as_long())
            ii = max(0, min(K, sv(a) if sv(a) >= 0 else K + sv(a)))
            jj = max(0, min(K, sv(b) if sv(b) >= 0 else K + sv(b)))
            exp = text[ii:jj] if jj > ii else ""
            return {"lines": ["push str " + text, "push int %d" % sv(a), "push int %d" % sv(b), "eval slice", "stack"],
                    "expect": [("no_panic",), ("last_result_in", ["ok"]), ("top_str_is", exp)]}
        for o in outs:
            if o.kind != "return":
                L.fail(o, "slice_str must not panic: %s" % (o.msg or "")[:80], cex=cex)
                continue
            r = o.value
            if not isinstance(r, StrBuf) or r.chars is None:
                raise Unsupported("slice_str result %r" % (r,))
            n = len(r.chars)
            # the result has n characters on this path: they must be model[i .. i+n) and n must be the model's length
            L.require(o, z3.If(z3.UGT(j, i), j - i, z3.BitVecVal(0, 64)) == z3.BitVecVal(n, 64), "slice of a string has the length the sequence model gives (in characters)", cex=cex)
            conds = []
            for p_ in range(n):
                for st_ in range(K - n + 1):
                    pass
            for st_ in range(0, K - n + 1):
                conds.append(z3.Implies(i == z3.BitVecVal(st_, 64), z3.And(*[r.chars[p_] == txt.sym.chars[st_ + p_] for p_ in range(n)]) if n else z3.BoolVal(True)))
            if n:
                L.require(o, z3.And(*conds), "slice of a string holds exactly the characters [i, j) of the text", cex=cex)
    return body


def run(L, tier, only=None):
    L.ex.path_budget = 4000
    if not only or "ord" in only:
        L.lemma("C12 Ord/Eq consistency of map keys", ord_eq_lemma)
    if not only or "antisym" in only:
        L.lemma("C12 Ord antisymmetry", antisym_lemma)
    if not only or "collect" in only:
        L.lemma("C12 collect takes exactly the visible cells asked for", collect_lemma)
    if not only or "strslice" in only:
        for K in ((2, 3) if tier == "quick" else (0, 1, 2, 3, 4)):
            L.lemma("C12 slice of a string, %d characters" % K, str_slice_lemma(K))
    if not only or "maps" in only:
        L.lemma("C12 insert then get (association list)", map_words_lemma)
        L.lemma("C12 remove drops the key", remove_get_lemma)
        L.lemma("C12 push appends, vectors are values", push_nth_lemma)
    for side in (0, 1):
        if not only or "tags" in only:
            L.lemma("C12 order and equality see through tags (operand %d)" % side, ord_tag_lemma(side))
    L.ex.path_budget = None
