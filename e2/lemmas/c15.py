"""C15: how a program is driven does not change what it does.

(1) recording transparency: each opcode arm of the real fetch_and_run (and the listed native words, run as
    NativeCall) is executed from the same arbitrary pre-state with recording off and with recording on; for
    every input both runs must end the same way and leave the same machine state (everything but the log).
(2) stepping: `next` performs exactly one fetch_and_run step (same result, same state), and `run` on a state
    whose next step is the last performs the same step.
Composition over whole programs (eval = compile + run from idle, run = iterated next) is a paper argument."""
import z3
from e2.values import *
from e2.lemma import word_map
from e2.prestate import *
from e2.symex import veq
from e2.lemmas.vm import *
from e2.lemmas.c13 import outcome_sig

FIELDS = ["data_stack", "return_stack", "loops", "special", "heap", "ctx", "insn_meter"]


def pc_key(o, drop):
    ks = []
    for c in o.st.pc:
        s = str(z3.simplify(c))
        if any(d in s for d in drop):
            continue
        ks.append(s)
    return tuple(sorted(set(ks)))


def compare_runs(L, what, pre_a, outs_a, pre_b, outs_b, drop, cex=None, fields=FIELDS):
    """outs_a / outs_b: outcomes of two drive modes from the same symbolic pre-state. Pair them by identical
    path conditions; anything unpaired is compared with every jointly feasible partner."""
    by_key = {}
    for o in outs_a:
        by_key.setdefault(pc_key(o, drop), []).append(o)
    npairs = 0
    for ob in outs_b:
        if ob.kind != "return":
            L.fail(ob, "%s: must not panic: %s" % (what, (ob.msg or "")[:80]))
            continue
        partners = by_key.get(pc_key(ob, drop))
        exact = partners is not None
        if not exact:
            partners = [oa for oa in outs_a if oa.kind == "return" and L.jointly_feasible(oa, ob)]
        for oa in partners:
            if oa.kind != "return":
                continue
            npairs += 1
            sa, sb = outcome_sig(L, oa), outcome_sig(L, ob)
            extra = list(oa.st.pc)
            # an arbitrary error value of a stubbed native word is one symbolic value on one side and, once the wrapper
            # has looked at it, a case split on the other: the same error
            if sa[0] == "Err" and sb[0] == "Err" and (str(sa[1]).startswith("symbolic:") or str(sb[1]).startswith("symbolic:")):
                sb = sa
            if sa != sb:
                L.require(ob, False, "%s: same result in both drive modes (got %s vs %s)" % (what, sa, sb), extra_pc=extra, cex=cex)
                continue
            Sa, Sb = final_state(L, oa), final_state(L, ob)
            for f in fields:
                L.require(ob, veq(L.ex, L.field(Sa, "State", f), L.field(Sb, "State", f)), "%s: same %s in both drive modes" % (what, f), extra_pc=extra, cex=cex)
    if npairs == 0:
        L.undecided.append((L.cur, "VACUOUS: no comparable pair"))


REC_SCEN = {
    "over": ["limit stack 4", "eval 1 2 over over", "eval over", "eval drop drop drop drop", "recording on", "eval 1 2 over over", "eval over", "stack"],
}


def recording_lemma(opcode=None, native=None):
    def body(L):
        def mk(rec):
            pre = VmPre(L, recording=rec, opcode=opcode, log_nonempty=False)
            if native is not None:
                loader, word = native
                tgt = word_map(L.ex, loader)[word][0] if loader else word
                pre.op.variant = "NativeCall"
                pre.op.payload = Struct("opcodes::Opcode::NativeCall", {0: Struct("cell::XfnPtr", {0: FnVal(L.fn(tgt).name)})})
            return pre
        pa, pb = mk(False), mk(True)
        outs_a = L.run("fetch_and_run", [pa.xs], pa.pc, pa.roots())
        outs_b = L.run("fetch_and_run", [pb.xs], pb.pc, pb.roots())
        what = "recording off/on, %s" % (opcode or native[1])
        sc = REC_SCEN.get(native[1]) if native else None
        cex = (lambda m: {"lines": sc, "expect": [("no_panic",), ("results_same_kind", [1, 4])]}) if sc else None
        if opcode in ("Store", "Load"):
            from e2.scen import cell_push_line

            def cex(m):
                # the variable's previous content and the stored value as the model has them; the same little
                # program is run with recording off and on, the visible results must agree
                slots = []
                for o_ in list(outs_a) + list(outs_b):
                    try:
                        hp = L.field(final_state(L, o_), "State", "heap")
                        slots = [v[1] for v in (hp.slots or {}).values() if getattr(v[1], "origin", None)]
                    except Exception:
                        slots = []
                    if slots:
                        break
                old = cell_push_line(m, slots[0].origin) if slots else "push int 5"
                new = cell_push_line(m, "a")
                prog = lambda v: [old, "eval var " + v, new, "eval ! " + v, "eval " + v, "stack", "eval depth collect drop"]
                return {"lines": prog("vx") + ["recording on"] + prog("vy"), "expect": [("no_panic",), ("stacks_equal", [0, 1])]}
        L.witness(outs_a, lambda o: o.kind == "return" and o.value.variant == "Ok", what + " can succeed")
        compare_runs(L, what, pa, outs_a, pb, outs_b, drop=["xs.*.17"], cex=cex)       # field 17 = reverse_log
    return body


def step_lemma(opcode):
    def body(L):
        pa = VmPre(L, opcode=opcode)
        pb = VmPre(L, opcode=opcode)
        outs_a = L.run("fetch_and_run", [pa.xs], pa.pc, pa.roots())
        outs_b = L.run("next", [pb.xs], pb.pc, pb.roots())
        cex = lambda m: {"lines": ["compile 1 2 \"x\" +", "clone", "run", "stack", "swap", "next 9", "stack"], "expect": [("no_panic",), ("stacks_equal", [0, 1])]}
        compare_runs(L, "next vs one VM step, %s" % opcode, pa, outs_a, pb, outs_b, drop=[], cex=cex)
        # run(): when this step is the last one (ip+1 == code length afterwards for straight-line opcodes)
        if opcode in ("Nop", "LoadNil", "LoadI64", "Store", "LoadLocal"):
            pc_ = VmPre(L, opcode=opcode)
            last = pc_.code.len_term() == pc_.ip.t + 1
            pd = VmPre(L, opcode=opcode)
            outs_c = L.run("run", [pc_.xs], pc_.pc + [last], pc_.roots())
            outs_d = L.run("next", [pd.xs], pd.pc + [last], pd.roots())
            cex2 = lambda m: {"lines": ["compile 1 2 \"x\" +", "clone", "run", "error", "swap", "next 9", "error"], "expect": [("no_panic",), ("errors_equal", [0, 1])]}
            compare_runs(L, "run vs next on the last instruction, %s" % opcode, pd, outs_d, pc_, outs_c, drop=[], fields=FIELDS + ["last_error"], cex=cex2)
    return body


def run(L, tier, only=None):
    L.ex.path_budget = 12000
    ops = [o for o in OPCODES if o != "Resolve"]
    quick = tier == "quick"
    arm_ops = ops if not quick else ["Nop", "Call", "Ret", "JumpIfNot", "Loop", "Break", "Load", "Store", "InitLocal", "LoadLocal", "NativeCall"]
    for op in arm_ops:
        if not only or op in only or "arms" in only:
            L.lemma("C15 recording, arm " + op, recording_lemma(opcode=op))
    natives = [("load_core", w) for w in (["dup", "drop", "swap", "rot", "over", "I", "nth", "depth"] if not quick else ["dup", "swap", "over", "I"])] + ([("arith::load", "+")] if not quick else []) + \
              [("bitstr_ext::load", w) for w in ([] if quick else ["bits", "seek"])] + \
              [(None, h) for h in (["vec_builder_begin", "foreach_init", "foreach_next"] if not quick else ["vec_builder_begin", "foreach_next"])]      # vec_builder_end: unbounded collect loop, see C02's bounded lemma
    for nat in natives:
        if not only or nat[1] in only or "natives" in only:
            L.lemma("C15 recording, native " + nat[1], recording_lemma(native=nat))
    for op in (["Nop", "JumpIfNot", "Call", "Ret", "Loop", "LoadI64", "Store", "LoadLocal"] if quick else ops):
        if not only or op in only or "steps" in only:
            L.lemma("C15 stepping, " + op, step_lemma(op))
    L.ex.path_budget = None
