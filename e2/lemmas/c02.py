"""C02: reverse stepping exactly undoes forward stepping (one-step induction).

L2 (instructions): for every opcode arm of the real `fetch_and_run`, run one forward step with recording on
from an arbitrary state, then the real `rnext` on the resulting state: ip, data stack, return stack (with
locals), loop stack, vector-builder marks, heap and the log itself must be back to the pre-state.
L2n (native words): the same for native words, undone by the real `reverse_changes` applied to exactly
the entries the word appended, newest first (what rnext does between two SetIp marks).
Histories of any length follow by induction; replay determinism is a corollary (every encoded step is a
function of the state)."""
import z3
from e2.values import *
from e2.lemma import word_map, word_call
from e2.prestate import *
from e2.symex import veq
from e2.lemmas.vm import *

FIELDS = ["data_stack", "return_stack", "loops", "special", "heap", "ctx"]


def restored(L, pre, S2, what, o, cex=None, fields=FIELDS):
    ok = True
    for f in fields:
        ok &= L.require(o, veq(L.ex, L.field(S2, "State", f), L.field(pre.S, "State", f)), "%s: %s restored exactly" % (what, f), cex=cex)
    return ok


def log_of(L, S):
    rl = L.field(S, "State", "reverse_log")
    if rl.variant != "Some":
        return None
    return L.ex.summ.payload(rl, 0, "std::vec::Vec<state::ReverseStep>")


ARM_SCEN = {
    "InitLocal": ["recording on", "compile : f 2 0 do I local x x drop loop ; f", "next 40", "dump", "rnext 9", "next 9", "dump"],
    "Break": ["recording on", "compile : f 3 0 do 2 0 do I break loop I drop loop ; f", "next 60", "dump", "rnext 12", "next 12", "dump"],
}


def arm_lemma(opcode):
    def body(L):
        pre = VmPre(L, recording=True, opcode=opcode)
        outs = L.run("fetch_and_run", [pre.xs], pre.pc, pre.roots())
        L.witness(outs, lambda o: o.kind == "return" and o.value.variant == "Ok", "%s can succeed" % opcode)
        sc = ARM_SCEN.get(opcode)
        cex = (lambda m: {"lines": sc, "expect": [("no_panic",), ("last_result_in", ["ok"]), ("dumps_equal", [0, 1])]}) if sc else None
        for o in outs:
            if o.kind != "return":
                L.fail(o, "%s must not panic: %s" % (opcode, (o.msg or "")[:80]))
                continue
            if o.value.variant != "Ok":
                continue            # a failing step is not part of a recorded history to rewind
            S1 = final_state(L, o)
            log1 = log_of(L, S1)
            nnew = len(log1.items) - len(pre.log.items)
            # exactly one SetIp terminator, and it is the newest entry
            setips = [e for e in log1.items[len(pre.log.items):] if isinstance(e, Enum) and e.variant == "SetIp"]
            L.require(o, z3.BoolVal(nnew >= 1 and len(setips) == 1 and log1.items[-1].variant == "SetIp"),
                      "%s: the step logs exactly one SetIp and logs it last (got %s)" % (opcode, [e.variant for e in log1.items[len(pre.log.items):]]), cex=cex)
            xs1 = o.st.ghost["roots"]["xs"]
            outs2 = L.run("rnext", [xs1], list(o.st.pc), {"xs": xs1})
            for o2 in outs2:
                if o2.kind != "return":
                    L.fail(o2, "rnext after %s must not panic: %s" % (opcode, (o2.msg or "")[:80]))
                    continue
                L.require(o2, z3.BoolVal(o2.value.variant == "Ok"), "rnext after a successful %s succeeds" % opcode, cex=cex)
                if o2.value.variant != "Ok":
                    continue
                S2 = final_state(L, o2)
                restored(L, pre, S2, "%s then rnext" % opcode, o2, cex=cex)
                log2 = log_of(L, S2)
                L.require(o2, veq(L.ex, log2, pre.log), "%s then rnext: the reverse log is back to its previous content" % opcode, cex=cex)
    return body


NATIVE_WORDS = [("load_core", w) for w in ["dup", "drop", "swap", "rot", "over", "I", "J", "depth", "nil?", "equal?", "length", "nth", "push", "tags", "with-tags"]] + \
               [("arith::load", w) for w in ["+", "neg", "<", "not"]] + \
               [("bitstr_ext::load", w) for w in ["bits", "u8", "i16le", "seek", "open-bitstr", "close-bitstr", "emit", "big"]]
HELPERS = ["vec_builder_begin", "vec_builder_end", "map_builder_begin", "foreach_init", "foreach_next"]

NATIVE_SCEN = {
    "emit": ["recording on", "eval ", "compile |FF| emit", "var output-length", "next 2", "var output-length", "rnext 1", "var output-length"],
    "foreach_next": ["recording on", "compile [ 5 6 ] foreach I drop loop", "next 30", "dump", "rnext 8", "next 8", "dump"],
}


def native_lemma(loader, word, target=None):
    """the word executed as a NativeCall instruction by the real fetch_and_run, then the real rnext"""
    def body(L):
        tgt = target or word_map(L.ex, loader)[word][0]
        fnobj = L.fn(tgt)
        if loader == "bitstr_ext::load":
            from e2.lemmas import c06
            base = c06.CursorPre(L, stack=[])
        pre = VmPre(L, recording=True)
        if loader == "bitstr_ext::load":
            # cursor invariant on the same state
            cp = c06.CursorPre.__new__(c06.CursorPre)
            cp.__dict__.update(pre.__dict__)
            c06.CursorPre.setup_cursor(cp, L)
            pre = cp
        if word == "vec_builder_end":
            # an open vector builder whose mark is at most 2 cells below the top (bound: <= 2 collected items)
            ptr = z3.BitVec("vb_ptr", 64)
            pre.vec("special").items.append(Enum("state::Special", "VecStackStart", Struct("state::Special::VecStackStart", {0: Int(ptr, 64, False)})))
            pre.ds.items = [L.cell("e0"), L.cell("e1")]
            pre.pc += [z3.ULE(ptr, pre.ds.len_term()), z3.UGE(ptr + 2, pre.ds.len_term()), z3.UGE(ptr, pre.ds_len.t)]
        # the current instruction is NativeCall(<this word>)
        pre.op.variant = "NativeCall"
        pre.op.payload = Struct("opcodes::Opcode::NativeCall", {0: Struct("cell::XfnPtr", {0: FnVal(fnobj.name)})})
        outs = L.run("fetch_and_run", [pre.xs], pre.pc, pre.roots())
        L.witness(outs, lambda o: o.kind == "return" and o.value.variant == "Ok", "`%s` can succeed" % word)
        sc = NATIVE_SCEN.get(word)
        cex = (lambda m: {"lines": sc, "expect": [("no_panic",), ("vars_equal", [0, 2])] if word == "emit" else [("no_panic",), ("dumps_equal", [0, 1])]}) if sc else None
        for o in outs:
            if o.kind != "return":
                L.fail(o, "`%s` must not panic: %s" % (word, (o.msg or "")[:80]))
                continue
            if o.value.variant != "Ok":
                continue
            xs1 = o.st.ghost["roots"]["xs"]
            outs2 = L.run("rnext", [xs1], list(o.st.pc), {"xs": xs1})
            for o2 in outs2:
                if o2.kind != "return":
                    L.fail(o2, "rnext after `%s` must not panic: %s" % (word, (o2.msg or "")[:80]))
                    continue
                L.require(o2, z3.BoolVal(o2.value.variant == "Ok"), "rnext after a successful `%s` succeeds" % word, cex=cex)
                if o2.value.variant != "Ok":
                    continue
                S2 = final_state(L, o2)
                restored(L, pre, S2, "`%s` then rnext" % word, o2, cex=cex)
                L.require(o2, veq(L.ex, log_of(L, S2), pre.log), "`%s` then rnext: the reverse log is back to its previous content" % word, cex=cex)
    return body


def run(L, tier, only=None):
    L.ex.path_budget = 12000
    ops = [o for o in OPCODES if o not in ("Resolve",)]
    for op in ops:
        if not only or op in only or "arms" in only:
            L.lemma("C02 arm " + op, arm_lemma(op))
    words = NATIVE_WORDS if tier != "quick" else [w for w in NATIVE_WORDS if w[1] in ("dup", "swap", "rot", "over", "I", "nth", "+", "bits", "u8", "seek", "open-bitstr", "close-bitstr", "emit")]
    for loader, w in words:
        if not only or w in only or "natives" in only:
            L.lemma("C02 native " + w, native_lemma(loader, w))
    for h in (HELPERS if tier != "quick" else [x for x in HELPERS if x != "vec_builder_end"]):
        if not only or h in only or "natives" in only:
            L.lemma("C02 native " + h, native_lemma("load_core", h, target=h))
    L.ex.path_budget = None
