"""C14: resource limits are hard bounds and hitting one leaves the interpreter usable.
One-step lemmas on the real push_data / alloc_heap / fetch_and_run from an arbitrary state with symbolic
limits, plus a MIR scan that no other code grows the data stack or the heap."""
import re
import z3
from e2.values import *
from e2.prestate import *
from e2.symex import veq
from e2.lemmas.vm import *

MAXU = z3.BitVecVal((1 << 64) - 1, 64)


def limit_term(L, pre, fld):
    lim = L.field(pre.S, "State", fld)
    some = L.is_variant(lim, "Some")
    val = z3.BitVec("%s.Some.0" % lim.origin, 64)
    return z3.If(some, val, MAXU)


def stack_lemma(L):
    v = L.cell("v")
    pre = Pre(L, stack=[])
    lim = limit_term(L, pre, "stack_limit")
    outs = L.run("push_data", [pre.xs, v], pre.pc, pre.roots())
    ln = pre.ds.len_term()
    L.witness(outs, lambda o: o.kind == "return" and o.value.variant == "Ok", "push_data can succeed")
    L.witness(outs, lambda o: o.kind == "return" and o.value.variant == "Err", "push_data can be refused")
    for o in outs:
        if o.kind != "return":
            L.fail(o, "push_data must not panic")
            continue
        S1 = final_state(L, o)
        ds1 = L.field(S1, "State", "data_stack")
        # witness template: items below the context's stack base count towards the limit too
        cex = lambda m: {"lines": ["limit stack 3", "eval 1 2", "eval #( 10 20 + #)"], "expect": [("no_panic",), ("last_result_in", ["err"])]}
        if o.value.variant == "Ok":
            L.require(o, z3.ULT(ln, lim), "push succeeds only while the whole stack holds fewer than the limit", cex=cex)
            L.require(o, veq(L.ex, ds1, Vec(ds1.elem_ty, pre.ds.prefix, [v])), "push adds exactly the pushed cell")
            L.require(o, z3.ULE(ds1.len_term(), lim), "after a push the stack never holds more than the limit", cex=cex)
        else:
            L.require(o, z3.UGE(ln, lim), "push is refused only at the limit")
            L.require(o, veq(L.ex, ds1, pre.ds), "a refused push leaves the stack unchanged")
            for f in ("return_stack", "loops", "heap", "ctx"):
                L.require(o, veq(L.ex, L.field(S1, "State", f), L.field(pre.S, "State", f)), "a refused push leaves %s unchanged" % f)


def heap_lemma(L):
    v = L.cell("v")
    pre = Pre(L, stack=[])
    lim = limit_term(L, pre, "heap_limit")
    outs = L.run("alloc_heap", [pre.xs, v], pre.pc, pre.roots())
    hl = pre.heap.len_term()
    mode = L.field(pre.ctx, "Context", "mode")
    meta = L.is_variant(mode, "MetaEval")
    L.witness(outs, lambda o: o.kind == "return" and o.value.variant == "Ok", "alloc_heap can succeed")
    for o in outs:
        if o.kind != "return":
            L.fail(o, "alloc_heap must not panic")
            continue
        S1 = final_state(L, o)
        h1 = L.field(S1, "State", "heap")
        if o.value.variant == "Ok":
            L.require(o, z3.And(z3.ULT(hl, lim), z3.Not(meta)), "allocation succeeds only below the heap limit and outside meta mode",
                      cex=lambda m: {"lines": ["limit heap 0", "eval var zz"], "expect": [("no_panic",), ("last_result_in", ["err"])]})
            L.require(o, h1.len_term() == hl + 1, "allocation grows the heap by one cell")
            L.require(o, z3.ULE(h1.len_term(), lim), "the heap never holds more cells than the limit")
            cr = L.ex.summ.payload(o.value, 0, "cell::CellRef")
            L.require(o, L.ex.step_get(None, cr, ("f", 0, "usize")).t == hl, "the new variable is the cell just appended")
        else:
            L.require(o, z3.Or(z3.UGE(hl, lim), meta), "allocation is refused only at the limit or in meta mode")
            L.require(o, veq(L.ex, h1, pre.heap), "a refused allocation leaves the heap unchanged")


def meter_lemma(opcode):
    def body(L):
        pre = VmPre(L, opcode=opcode)
        lim = limit_term(L, pre, "insn_limit")
        meter0 = L.field(pre.S, "State", "insn_meter").t
        outs = L.run("fetch_and_run", [pre.xs], pre.pc, pre.roots())
        L.witness(outs, lambda o: o.kind == "return", "fetch_and_run(%s) returns" % opcode)
        for o in outs:
            if o.kind != "return":
                L.fail(o, "fetch_and_run(%s) must not panic: %s" % (opcode, (o.msg or "")[:80]))
                continue
            S1 = final_state(L, o)
            m1 = L.field(S1, "State", "insn_meter").t
            at_limit = z3.UGE(meter0, lim)
            cex = lambda m: {"lines": ["compile 1 2 3 4 5", "limit insn 2", "next 5", "stack"], "expect": [("no_panic",), ("depth_at_most", 2)]}
            # below the limit: exactly one tick; at the limit: refused before anything happens
            L.require(o, z3.If(at_limit, m1 == meter0, m1 == meter0 + 1), "%s: one step costs exactly one tick, none when refused" % opcode, cex=cex)
            if L.feasible(o, at_limit):
                kind = L.result_kind(o)
                L.require(o, z3.BoolVal(kind[0] == "Err" and kind[1] == "ErrorMsg"), "%s: at the instruction limit the step is refused" % opcode, extra_pc=[at_limit], cex=cex)
                for c in state_fields_equal(L, pre.S, S1, MACHINE_FIELDS):
                    L.require(o, c, "%s: a step refused by the instruction limit changes nothing" % opcode, extra_pc=[at_limit], cex=cex)
    return body


def set_limit_lemma(L):
    pre = Pre(L, stack=[])
    newlim = L.sym("std::option::Option<usize>", "newlim")
    outs = L.run("set_insn_limit", [pre.xs, newlim], pre.pc, pre.roots())
    for o in outs:
        if o.kind != "return":
            L.fail(o, "set_insn_limit must not panic")
            continue
        S1 = final_state(L, o)
        L.require(o, L.field(S1, "State", "insn_meter").t == 0, "set_insn_limit restarts the meter")
        L.require(o, veq(L.ex, L.field(S1, "State", "insn_limit"), newlim), "set_insn_limit stores the limit")


def growth_scan(L):
    """MIR scan (not a solver query): every Vec::push / insert / extend on State.data_stack (field 6) and
    State.heap (field 1) happens inside the metered primitives."""
    ex = L.ex
    allowed = {6: {"push_data", "reverse_changes"}, 1: {"alloc_heap"}}
    found = {6: set(), 1: set()}
    for name, f in ex.funcs.items():
        if name.startswith(("const ", "promoted")) or "tests::" in name:
            continue
        for b in f.blocks.values():
            refs = {}
            for st in b.stmts:
                if st[0] == "assign" and st[2][0] == "ref" and st[2][1] == "mut":
                    pl = st[2][2]
                    if pl[0] == "field" and pl[1] == ("deref", ("local", "_1")) and pl[2] in (1, 6) and "state::State" in f.params[0][1] if f.params else False:
                        refs[st[1][1] if st[1][0] == "local" else None] = pl[2]
            t = b.term
            if t and t[0] == "call" and re.search(r"Vec::<cell::Cell>::(push|insert|extend|extend_from_slice|resize|append)$", t[2]):
                a0 = t[3][0]
                if a0[0] in ("move", "copy") and a0[1][0] == "local" and a0[1][1] in refs:
                    found[refs[a0[1][1]]].add(ex._last_seg(name))
    from e2.lemma import Obligation
    for fld, nm in ((6, "data stack"), (1, "heap")):
        extra = found[fld] - allowed[fld]
        if extra:
            ob = Obligation(L.cur, "only the metered primitives grow the %s (other writers: %s)" % (nm, sorted(extra)), "violated", model={}, detail="MIR scan")
            L.obligations.append(ob)
        else:
            L.obligations.append(Obligation(L.cur, "MIR scan: the %s grows only in %s (found: %s)" % (nm, sorted(allowed[fld]), sorted(found[fld])), "holds"))
        if not found[fld]:
            L.undecided.append((L.cur, "VACUOUS scan: no writer of the %s found" % nm))


def run(L, tier, only=None):
    L.ex.path_budget = 8000
    if not only or "stack" in only:
        L.lemma("C14 stack limit (push_data)", stack_lemma)
    if not only or "heap" in only:
        L.lemma("C14 heap limit (alloc_heap)", heap_lemma)
    if not only or "setlimit" in only:
        L.lemma("C14 set_insn_limit", set_limit_lemma)
    if not only or "scan" in only:
        L.lemma("C14 growth scan", growth_scan)
    ops = [o for o in OPCODES if o != "Resolve"]
    if tier == "quick":
        ops = ["Nop", "NativeCall", "Call", "Ret", "JumpIfNot", "Loop", "LoadI64", "Store", "InitLocal"]
    for op in ops:
        if not only or "meter" in only or op in only:
            L.lemma("C14 instruction meter, " + op, meter_lemma(op))
    L.ex.path_budget = None
