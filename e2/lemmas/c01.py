"""C01: control flow compiles to bytecode that means what the source says - lemma groups L2 and L3
(L1, the jump codec, is decided by Kani in E1).

L3 (VM arms): each control opcode of the real fetch_and_run against its small-step structural semantics,
from an arbitrary state (any ip, any stack depths).
L2 (compile steps): each immediate control word of the real compiler run on an arbitrary compile state whose
pending-flow stack holds the flows the word expects; afterwards every patched jump lands on the label the
structural semantics names and the flow stack is consumed correctly.
The induction over the nesting of constructs that turns L1+L2+L3 into the whole-program statement is a paper
argument (DESIGN.md)."""
import z3
from e2.values import *
from e2.prestate import *
from e2.symex import veq, veq_modtags
from e2.lemmas.vm import *

U = lambda v: z3.BitVecVal(v, 64)


def rel_target(pre, opname):
    """ip + rel (the operand of the jump opcode), as RelativeJump::calculate computes it"""
    rel = z3.BitVec("%s.%s.0.0" % (pre.op.origin, opname), 32)
    return pre.ip.t + z3.SignExt(32, rel)


def ctx_ip(L, S):
    return L.field(L.field(S, "State", "ctx"), "Context", "ip").t


def unchanged(L, pre, S1, fields):
    return z3.And(*[veq(L.ex, L.field(S1, "State", f), L.field(pre.S, "State", f)) for f in fields])


def stack_is(L, pre, S1, items):
    ds1 = L.field(S1, "State", "data_stack")
    return veq(L.ex, ds1, Vec(ds1.elem_ty, pre.ds.prefix, list(items)))


def cond_of(L, o, cell):
    """(is_valid_condition, truth) of a cell as Cell::cond_true sees it on this path: Nil -> false, Flag(x) -> x (tags transparent)"""
    v = variant_on_path(L, o, cell)
    name = cell.origin
    if v == "WithTag":
        inner = mk_sym(L.ex.tc, "cell::Cell", name + ".WithTag.0.*.1")
        return cond_of(L, o, inner)
    if v == "Nil":
        return True, z3.BoolVal(False)
    if v == "Flag":
        return True, z3.Bool(name + ".Flag.0")
    return False, None


SCEN = {
    "InitLocal": ["eval : f 3 0 do I local x loop x ; f", "stack"],
}


def arm_lemma(opcode):
    def body(L):
        pre = VmPre(L, opcode=opcode)
        a, b, c = pre.ds.items[2], pre.ds.items[1], pre.ds.items[0]
        outs = L.run("fetch_and_run", [pre.xs], pre.pc, pre.roots())
        L.witness(outs, lambda o: o.kind == "return" and o.value.variant == "Ok", "%s can succeed" % opcode)
        ip = pre.ip.t
        OTHER = {"Jump": ["data_stack", "return_stack", "loops", "special", "heap"], "Nop": ["data_stack", "return_stack", "loops", "special", "heap"]}
        sc = SCEN.get(opcode)
        cex = (lambda m: {"lines": sc, "expect": [("no_panic",), ("last_result_in", ["ok"]), ("top_in", [("int", "2")])]}) if sc else None
        for o in outs:
            if o.kind != "return":
                L.fail(o, "%s must not panic: %s" % (opcode, (o.msg or "")[:80]))
                continue
            S1 = final_state(L, o)
            ok = o.value.variant == "Ok"
            ip1 = ctx_ip(L, S1)
            kind = L.result_kind(o)
            if kind[0] == "Err" and kind[1] == "ErrorMsg" and opcode not in ("LoadLocal", "Load", "Store"):
                continue        # limits (C14)
            if not ok:
                L.require(o, ip1 == ip, "%s: a failing step leaves ip on the failing instruction" % opcode)
            if opcode == "Nop" and ok:
                L.require(o, z3.And(ip1 == ip + 1, unchanged(L, pre, S1, OTHER["Nop"])), "Nop: ip+1, nothing else")
            elif opcode == "Jump" and ok:
                L.require(o, z3.And(ip1 == rel_target(pre, "Jump"), unchanged(L, pre, S1, OTHER["Jump"])), "Jump: ip = target, nothing else")
            elif opcode in ("JumpIf", "JumpIfNot"):
                valid, truth = cond_of(L, o, a)
                depth_ok = z3.UGE(pre.visible_depth(), U(1))
                if ok:
                    if not valid:
                        L.require(o, False, "%s: succeeds only on a flag or nil" % opcode)
                        continue
                    taken = truth if opcode == "JumpIf" else z3.Not(truth)
                    L.require(o, ip1 == z3.If(taken, rel_target(pre, opcode), ip + 1), "%s: jumps exactly when the popped condition says so" % opcode)
                    L.require(o, z3.And(stack_is(L, pre, S1, [c, b]), unchanged(L, pre, S1, ["return_stack", "loops", "special", "heap"])),
                              "%s: pops exactly the condition, nothing else changes" % opcode)
                else:
                    L.require(o, z3.BoolVal(kind[1] in ("StackUnderflow", "TypeErrorMsg")), "%s: fails only by underflow or a non-flag condition" % opcode)
                    if kind[1] == "TypeErrorMsg":
                        L.require(o, z3.BoolVal(not valid), "%s: type error only for a non-flag, non-nil condition" % opcode)
            elif opcode == "CaseOf":
                if ok:
                    eq = veq_modtags(L.ex, a, b)
                    ds1 = L.field(S1, "State", "data_stack")
                    # equal: both popped, fall through; different: selector stays, jump to the next case
                    L.require(o, z3.Or(z3.And(ip1 == ip + 1, stack_is(L, pre, S1, [c])), z3.And(ip1 == rel_target(pre, "CaseOf"), stack_is(L, pre, S1, [c, b]))),
                              "CaseOf: either matches (pops selector and case value, falls through) or keeps the selector and jumps to the next case")
                    L.require(o, unchanged(L, pre, S1, ["return_stack", "loops", "special", "heap"]), "CaseOf: nothing else changes")
            elif opcode == "Call" and ok:
                addr = z3.BitVec("%s.Call.0" % pre.op.origin, 64)
                rs1 = L.field(S1, "State", "return_stack")
                fr = rs1.items[-1] if rs1.items else None
                shape = fr is not None and len(rs1.items) == len(pre.rs.items) + 1
                if not shape:
                    L.require(o, False, "Call pushes exactly one frame")
                    continue
                L.require(o, z3.And(ip1 == addr, L.field(fr, "Frame", "fn_addr").t == addr, L.field(fr, "Frame", "return_to").t == ip + 1),
                          "Call: new frame returns to ip+1 and control goes to the callee")
                lv = L.field(fr, "Frame", "locals")
                L.require(o, z3.BoolVal(isinstance(lv, Vec) and lv.prefix is None and not lv.items), "Call: the new frame starts with no locals")
                L.require(o, z3.And(veq(L.ex, Vec(rs1.elem_ty, rs1.prefix, rs1.items[:-1], rs1.low), pre.rs), unchanged(L, pre, S1, ["data_stack", "loops", "special", "heap"])),
                          "Call: older frames, stacks and heap untouched")
            elif opcode == "Ret" and ok:
                rs1 = L.field(S1, "State", "return_stack")
                top = pre.rs.items[-1]
                L.require(o, z3.And(ip1 == L.field(top, "Frame", "return_to").t, veq(L.ex, rs1, Vec(rs1.elem_ty, pre.rs.prefix, pre.rs.items[:-1], pre.rs.low)),
                                    unchanged(L, pre, S1, ["data_stack", "loops", "special", "heap"])), "Ret: pops the top frame and continues at its return address")
            elif opcode == "Do" and ok:
                lo1 = L.field(S1, "State", "loops")
                ai, bi = int_payload(a.origin), int_payload(b.origin)
                va, vb = variant_on_path(L, o, a), variant_on_path(L, o, b)
                if va == "WithTag":
                    ai = int_payload(a.origin + ".WithTag.0.*.1")
                if vb == "WithTag":
                    bi = int_payload(b.origin + ".WithTag.0.*.1")
                start, limit = z3.Extract(63, 0, ai), z3.Extract(63, 0, bi)
                empty = z3.Not(start < limit)
                pushed = len(lo1.items) == len(pre.loops.items) + 1
                if pushed:
                    nl = lo1.items[-1]
                    rng = L.field(nl, "Loop", "range")
                    rs_, re_ = L.ex.step_get(None, rng, ("f", 0, "isize")).t, L.ex.step_get(None, rng, ("f", 1, "isize")).t
                    L.require(o, z3.And(z3.Not(empty), ip1 == ip + 1, rs_ == start, re_ == limit), "Do: a non-empty range start..limit is pushed (start = top of stack) and the body is entered")
                else:
                    L.require(o, z3.And(empty, ip1 == rel_target(pre, "Do"), veq(L.ex, lo1, pre.loops)), "Do: an empty range pushes no loop and jumps behind the loop")
                L.require(o, z3.And(stack_is(L, pre, S1, [c]), unchanged(L, pre, S1, ["return_stack", "special", "heap"])), "Do: pops limit and start, nothing else changes")
            elif opcode == "Loop" and ok:
                lo1 = L.field(S1, "State", "loops")
                top = pre.loops.items[-1]
                rng = L.field(top, "Loop", "range")
                s0, e0 = L.ex.step_get(None, rng, ("f", 0, "isize")).t, L.ex.step_get(None, rng, ("f", 1, "isize")).t
                nxt = z3.If(s0 < e0, s0 + 1, s0)
                more = nxt < e0
                if len(lo1.items) == len(pre.loops.items):
                    r1 = L.field(lo1.items[-1], "Loop", "range")
                    L.require(o, z3.And(more, ip1 == rel_target(pre, "Loop"), L.ex.step_get(None, r1, ("f", 0, "isize")).t == nxt,
                                        L.ex.step_get(None, r1, ("f", 1, "isize")).t == e0), "Loop: index advanced by one and control returns to the body while the range is non-empty")
                else:
                    L.require(o, z3.And(z3.Not(more), ip1 == ip + 1, veq(L.ex, lo1, Vec(lo1.elem_ty, pre.loops.prefix, pre.loops.items[:-1], pre.loops.low))),
                              "Loop: a finished loop is popped (no index stays visible) and control falls through")
                L.require(o, unchanged(L, pre, S1, ["data_stack", "return_stack", "special", "heap"]), "Loop: nothing else changes")
            elif opcode == "Break" and ok:
                lo1 = L.field(S1, "State", "loops")
                L.require(o, z3.And(ip1 == rel_target(pre, "Break"), veq(L.ex, lo1, Vec(lo1.elem_ty, pre.loops.prefix, pre.loops.items[:-1], pre.loops.low)),
                                    unchanged(L, pre, S1, ["data_stack", "return_stack", "special", "heap"])), "Break: pops the innermost loop and jumps behind it")
            elif opcode == "InitLocal" and ok:
                idx = z3.BitVec("%s.InitLocal.0" % pre.op.origin, 64)
                rs1 = L.field(S1, "State", "return_stack")
                f0 = pre.rs.items[-1]
                f1 = rs1.items[-1]
                l0, l1 = L.field(f0, "Frame", "locals"), L.field(f1, "Frame", "locals")
                n0 = l0.len_term()
                grew = l1.len_term() == n0 + 1
                same = l1.len_term() == n0
                L.require(o, z3.If(z3.ULT(idx, n0), same, grew), "InitLocal: an existing slot is overwritten (count unchanged), a new slot is appended", cex=cex)
                L.require(o, z3.And(ip1 == ip + 1, stack_is(L, pre, S1, [c, b]), unchanged(L, pre, S1, ["loops", "special", "heap"])), "InitLocal: pops the value, ip+1, nothing else")
                # the written slot holds the popped value
                if L.feasible(o, z3.ULT(idx, n0)):
                    key = str(z3.simplify(idx))
                    if l1.slots is not None and key in l1.slots:
                        L.require(o, veq(L.ex, l1.slots[key][1], a), "InitLocal: the slot holds the popped value", extra_pc=[z3.ULT(idx, n0)], cex=cex)
                    else:
                        L.require(o, False, "InitLocal: slot idx is written when it exists", extra_pc=[z3.ULT(idx, n0)], cex=cex)
            elif opcode == "Store" and ok:
                L.require(o, z3.And(ip1 == ip + 1, stack_is(L, pre, S1, [c, b]), unchanged(L, pre, S1, ["return_stack", "loops", "special"])), "Store: pops the value, ip+1")
                cr = z3.BitVec("%s.Store.0.0" % pre.op.origin, 64)
                h1 = L.field(S1, "State", "heap")
                key = str(z3.simplify(cr))
                L.require(o, veq(L.ex, h1.slots[key][1], a) if key in (h1.slots or {}) else False, "Store: the variable holds the popped value")
            elif opcode in ("LoadNil", "LoadI64") and ok:
                ds1 = L.field(S1, "State", "data_stack")
                top = ds1.items[-1]
                if opcode == "LoadNil":
                    L.require(o, z3.And(z3.BoolVal(top.variant == "Nil"), ip1 == ip + 1, stack_is(L, pre, S1, [c, b, a, top])), "LoadNil pushes nil")
                else:
                    lit = z3.BitVec("%s.LoadI64.0" % pre.op.origin, 64)
                    L.require(o, z3.And(z3.BoolVal(top.variant == "Int"), L.payload(top, 0, "i128").t == z3.SignExt(64, lit), ip1 == ip + 1, stack_is(L, pre, S1, [c, b, a, top])),
                              "LoadI64 pushes the sign-extended literal")
    return body


# ------------------------------------------------------------------------------------------- L2: compile steps

class CompilePre(Pre):
    """Compile-time state: code of any length n0 (symbolic prefix, slotted), flow stack = hidden prefix + the
    pending flows given, debug map parallel to the code, last_token any."""

    def __init__(self, L, flows):
        super().__init__(L, stack=[])
        self.code = self.vec("code")
        self.code.slots = {}
        self.dm = self.vec("debug_map")
        self.dm.slots = {}
        self.pc.append(self.dm.len_term() == self.code.len_term())
        self.fs = self.vec("flow_stack")
        self.fs.items = list(flows)
        self.n = self.code.len_term()
        # L1's bound: relative jumps are i32, so code addresses stay below 2^31 (E1 decides the codec inside this bound)
        self.pc.append(z3.ULT(self.n, z3.BitVecVal((1 << 31) - 4, 64)))

    def flow(self, L, variant, name, *orgs):
        return Enum("state::Flow", variant, Struct("state::Flow::" + variant, {i: Int(o, 64, False) for i, o in enumerate(orgs)}) if orgs else None)

    def placeholder(self, L, org, opcode):
        """code[org] is the placeholder jump the flow's opening word emitted"""
        import types
        step = L.ex.slot_step(types.SimpleNamespace(pc=self.pc), self.code, org)
        cell = self.code.slots[step[1]][1]
        self.pc.append(z3.ULT(org, self.n))
        self.pc.append(cell.discr == z3.BitVecVal(L.ex.enum_index("Opcode", opcode), 64))
        return cell


def code_at(L, S1, org):
    code1 = L.field(S1, "State", "code")
    key = str(z3.simplify(org))
    if code1.slots and key in code1.slots:
        return code1.slots[key][1]
    return None


def jump_lands(L, cell, opcode, org, dest):
    """cell is Opcode::<opcode>(rel) with org + rel == dest"""
    if not (isinstance(cell, Enum) and cell.variant == opcode):
        return z3.BoolVal(False)
    rj = L.payload(cell, 0, "opcodes::RelativeJump")
    rel = L.ex.step_get(None, rj, ("f", 0, "i32")).t
    return org + z3.SignExt(32, rel) == dest


def appended(L, pre, S1, k):
    """the code grew by exactly k instructions; returns them (explicit items)"""
    code1 = L.field(S1, "State", "code")
    dm1 = L.field(S1, "State", "debug_map")
    if code1.prefix != pre.code.prefix or len(code1.items) != k:
        return None
    return code1.items


def then_lemma(L):
    for kind, opc in (("If", "JumpIfNot"), ("Else", "Jump")):
        org = z3.BitVec("org", 64)
        pre = CompilePre(L, [])
        pre.fs.items = [pre.flow(L, kind, "f", org)]
        pre.placeholder(L, org, opc)
        outs = L.run("core_word_then", [pre.xs], pre.pc, pre.roots())
        L.witness(outs, lambda o: o.kind == "return" and o.value.variant == "Ok", "then closes an open " + kind)
        for o in outs:
            if o.kind != "return":
                L.fail(o, "then must not panic (%s)" % (o.msg or "")[:60])
                continue
            S1 = final_state(L, o)
            if o.value.variant != "Ok":
                L.require(o, False, "then succeeds when an if/else is pending")
                continue
            L.require(o, jump_lands(L, code_at(L, S1, org), opc, org, pre.n), "then: the pending %s jump lands on the instruction after the construct" % kind)
            L.require(o, z3.BoolVal(appended(L, pre, S1, 0) is not None), "then emits no code")
            fs1 = L.field(S1, "State", "flow_stack")
            L.require(o, veq(L.ex, fs1, Vec(fs1.elem_ty, pre.fs.prefix, [])), "then consumes exactly the pending flow")


def else_lemma(L):
    org = z3.BitVec("org", 64)
    pre = CompilePre(L, [])
    pre.fs.items = [pre.flow(L, "If", "f", org)]
    pre.placeholder(L, org, "JumpIfNot")
    outs = L.run("core_word_else", [pre.xs], pre.pc, pre.roots())
    L.witness(outs, lambda o: o.kind == "return" and o.value.variant == "Ok", "else after if")
    for o in outs:
        if o.kind != "return":
            L.fail(o, "else must not panic")
            continue
        if o.value.variant != "Ok":
            L.require(o, False, "else succeeds when an if is pending")
            continue
        S1 = final_state(L, o)
        items = appended(L, pre, S1, 1)
        L.require(o, z3.BoolVal(items is not None and items[0].variant == "Jump"), "else emits one placeholder Jump")
        L.require(o, jump_lands(L, code_at(L, S1, org), "JumpIfNot", org, pre.n + 1), "else: the if-jump lands on the first instruction of the else branch")
        fs1 = L.field(S1, "State", "flow_stack")
        L.require(o, veq(L.ex, fs1, Vec(fs1.elem_ty, pre.fs.prefix, [pre.flow(L, "Else", "e", pre.n)])), "else leaves exactly one pending Else flow at the new jump")


def loop_lemma(L, nbreaks):
    """do@f body@b [break@k]* loop@l"""
    f_org, b_org = z3.BitVec("for_org", 64), z3.BitVec("body_org", 64)
    pre = CompilePre(L, [])
    do_flow = Enum("state::Flow", "Do", Struct("state::Flow::Do", {0: Int(f_org, 64, False), 1: Int(b_org, 64, False)}))
    brs = [z3.BitVec("br%d" % i, 64) for i in range(nbreaks)]
    pre.fs.items = [do_flow] + [pre.flow(L, "Break", "b", k) for k in brs]
    pre.pc.append(b_org == f_org + 1)
    for k in brs:
        pre.pc.append(z3.UGT(k, f_org))
    pre.pc.append(z3.Distinct(*([f_org] + brs)) if brs else z3.BoolVal(True))
    pre.placeholder(L, f_org, "Do")
    for k in brs:
        pre.placeholder(L, k, "Jump")
    outs = L.run("core_word_loop", [pre.xs], pre.pc, pre.roots())
    L.witness(outs, lambda o: o.kind == "return" and o.value.variant == "Ok", "loop closes do with %d breaks" % nbreaks)
    for o in outs:
        if o.kind != "return":
            L.fail(o, "loop must not panic")
            continue
        if o.value.variant != "Ok":
            L.require(o, False, "loop succeeds when a do is pending")
            continue
        S1 = final_state(L, o)
        items = appended(L, pre, S1, 1)
        if items is None:
            L.require(o, False, "loop emits exactly one instruction")
            continue
        l_org = pre.n
        L.require(o, jump_lands(L, items[0], "Loop", l_org, b_org), "loop: the Loop instruction jumps back to the first body instruction")
        L.require(o, jump_lands(L, code_at(L, S1, f_org), "Do", f_org, l_org + 1), "loop: an empty range makes Do jump behind the Loop instruction")
        for k in brs:
            L.require(o, jump_lands(L, code_at(L, S1, k), "Break", k, l_org + 1), "loop: every pending break becomes a Break (pops the loop) that lands behind the Loop instruction",
                      cex=lambda m: {"lines": ["eval 3 0 do begin I 1 == if break then 7 drop repeat loop depth", "stack"], "expect": [("no_panic",), ("last_result_in", ["ok"]), ("top_in", [("int", "0")])]})
        fs1 = L.field(S1, "State", "flow_stack")
        L.require(o, veq(L.ex, fs1, Vec(fs1.elem_ty, pre.fs.prefix, [])), "loop consumes the do flow and its breaks")


def repeat_lemma(L, nbreaks, with_while):
    b_org = z3.BitVec("begin_org", 64)
    w_org = z3.BitVec("while_org", 64)
    pre = CompilePre(L, [])
    brs = [z3.BitVec("br%d" % i, 64) for i in range(nbreaks)]
    flows = [pre.flow(L, "Begin", "b", b_org)]
    if len(brs) + (1 if with_while else 0) > 1:
        pre.pc.append(z3.Distinct(*(brs + ([w_org] if with_while else []))))
    if with_while:
        flows.append(pre.flow(L, "While", "w", w_org))
        pre.placeholder(L, w_org, "JumpIfNot")
    flows += [pre.flow(L, "Break", "k", k) for k in brs]
    pre.fs.items = flows
    pre.pc.append(z3.ULE(b_org, pre.n))
    for k in brs:
        pre.placeholder(L, k, "Jump")
    outs = L.run("core_word_repeat", [pre.xs], pre.pc, pre.roots())
    L.witness(outs, lambda o: o.kind == "return" and o.value.variant == "Ok", "repeat closes begin")
    for o in outs:
        if o.kind != "return":
            L.fail(o, "repeat must not panic")
            continue
        if o.value.variant != "Ok":
            L.require(o, False, "repeat succeeds when a begin is pending")
            continue
        S1 = final_state(L, o)
        items = appended(L, pre, S1, 1)
        if items is None:
            L.require(o, False, "repeat emits exactly one instruction")
            continue
        r_org = pre.n
        L.require(o, jump_lands(L, items[0], "Jump", r_org, b_org), "repeat: jumps back to begin (also when the body is empty)")
        if with_while:
            L.require(o, jump_lands(L, code_at(L, S1, w_org), "JumpIfNot", w_org, r_org + 1), "repeat: a false while-condition leaves the loop behind the back jump")
        for k in brs:
            L.require(o, jump_lands(L, code_at(L, S1, k), "Jump", k, r_org + 1), "repeat: every pending break leaves the loop behind the back jump")
        fs1 = L.field(S1, "State", "flow_stack")
        L.require(o, veq(L.ex, fs1, Vec(fs1.elem_ty, pre.fs.prefix, [])), "repeat consumes begin, while and the breaks")


def break_lemma(L):
    """break inside nested loops of different kinds: the flow it leaves is resolved by the innermost loop"""
    for inner, outer in (("Begin", "Do"), ("Do", "Begin")):
        pre = CompilePre(L, [])
        o1, o2, o3 = z3.BitVec("o1", 64), z3.BitVec("o2", 64), z3.BitVec("o3", 64)
        mk = lambda kind, a, b_: Enum("state::Flow", "Do", Struct("", {0: Int(a, 64, False), 1: Int(b_, 64, False)})) if kind == "Do" else pre.flow(L, "Begin", "x", a)
        pre.fs.items = [mk(outer, o1, o1 + 1), mk(inner, o2, o2 + 1)]
        outs = L.run("core_word_break", [pre.xs], pre.pc, pre.roots())
        for o in outs:
            if o.kind != "return":
                L.fail(o, "break must not panic")
                continue
            if o.value.variant != "Ok":
                L.require(o, False, "break succeeds inside a loop")
                continue
            S1 = final_state(L, o)
            items = appended(L, pre, S1, 1)
            L.require(o, z3.BoolVal(items is not None and items[0].variant == "Jump"),
                      "break emits a placeholder Jump that the closing word of the innermost loop turns into the right exit (inner %s in outer %s)" % (inner, outer),
                      cex=lambda m: {"lines": ["eval 3 0 do begin break repeat loop depth", "stack"], "expect": [("no_panic",), ("last_result_in", ["ok"]), ("top_in", [("int", "0")])]})
            fs1 = L.field(S1, "State", "flow_stack")
            L.require(o, veq(L.ex, fs1, Vec(fs1.elem_ty, pre.fs.prefix, pre.fs.items + [pre.flow(L, "Break", "k", pre.n)])), "break leaves one pending Break flow on top")


def run(L, tier, only=None):
    L.ex.path_budget = 12000
    arms = ["Nop", "Jump", "JumpIf", "JumpIfNot", "CaseOf", "Call", "Ret", "Do", "Loop", "Break", "InitLocal", "Store", "LoadNil", "LoadI64"]
    for op in arms:
        if not only or op in only or "arms" in only:
            L.lemma("C01-L3 " + op, arm_lemma(op))
    comp = [("then", then_lemma), ("else", else_lemma), ("loop/0", lambda L_: loop_lemma(L_, 0)), ("loop/1", lambda L_: loop_lemma(L_, 1)),
            ("loop/2", lambda L_: loop_lemma(L_, 2)), ("repeat", lambda L_: repeat_lemma(L_, 0, False)), ("while-repeat/1", lambda L_: repeat_lemma(L_, 1, True)),
            ("repeat/2", lambda L_: repeat_lemma(L_, 2, False)), ("break", break_lemma)]
    for nm, f in comp:
        if not only or nm.split("/")[0] in only or "compile" in only:
            L.lemma("C01-L2 " + nm, f)
    L.ex.path_budget = None
