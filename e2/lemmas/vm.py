"""Shared set-up for lemmas about one VM step: `fetch_and_run` on an arbitrary state whose current
instruction is an arbitrary opcode with symbolic operand."""
import z3
from e2.values import *
from e2.prestate import *

OPCODES = ["Nop", "Call", "Resolve", "NativeCall", "Ret", "JumpIf", "JumpIfNot", "Jump", "Do", "Break", "Loop", "CaseOf", "Load",
           "LoadNil", "LoadI64", "LoadF64", "LoadStr", "LoadCell", "Store", "InitLocal", "LoadLocal"]


def native_stub(ex_, st, fr, callee, args):
    """an unknown native word reached through a symbolic function pointer: any result, state untouched
    (what individual words do to the state is the subject of the per-word lemmas)"""
    # deterministic name: two drive modes of a relational lemma must see the same (arbitrary) answer of the same word
    nm = "native_result"          # one native call per VM step; independent of the call depth (next / run wrap the step)
    return Enum("Result<(), error::Xerr>", None, None, origin=nm, discr=z3.BitVec(nm + ".discr", 64))


def token_location_stub(ex_, st, fr, callee, args):
    # a pure function of the token: named after it, so that two drive modes of a relational lemma get the same location
    from e2.summaries import canon
    try:
        nm = "token_location!" + str(canon(ex_, args[1]))[:80]
    except Exception:
        nm = ex_.fresh_name("token_location")
    return Enum("Option<lex::TokenLocation>", None, None, origin=nm, discr=z3.BitVec(nm + ".discr", 64))


class VmPre(Pre):
    """State with: code[ip] = symbolic opcode `op`; 3 symbolic cells on the data stack (a on top);
    2 frames on the return stack; 2 loops on the loop stack; 1 vector-builder mark."""

    def __init__(self, L, recording=None, opcode=None, log_nonempty=True):
        cells = [L.cell("c"), L.cell("b"), L.cell("a")]
        super().__init__(L, stack=cells, recording=recording)
        ex = L.ex
        self.code = self.vec("code")
        self.code.slots = {}
        self.pc.append(z3.ULT(self.ip.t, self.code.len_term()))
        step = ex.slot_step(None, self.code, self.ip.t)
        self.op = self.code.slots[step[1]][1]
        if opcode is not None:
            self.pc.append(self.op.discr == z3.BitVecVal(ex.enum_index("Opcode", opcode), 64))
        self.rs = self.vec("return_stack")
        self.rs.items = [L.sym("state::Frame", "frame1"), L.sym("state::Frame", "frame0")]
        self.loops = self.vec("loops")
        self.loops.items = [L.sym("state::Loop", "loop1"), L.sym("state::Loop", "loop0")]
        self.special = self.vec("special")
        self.special.items = [L.sym("state::Special", "special0")]
        # modelling restriction: the innermost vector-builder mark points at one of the explicit cells or just
        # above them (marks deeper in the symbolic part would need an unbounded collect loop)
        mark = z3.BitVec("special0.VecStackStart.0", 64)
        self.pc += [z3.UGE(mark, self.n0), z3.ULE(mark, self.n0 + 4)]
        # plain counted loops on the loop stack (foreach loops carry a collection: covered by their own lemmas)
        for lp in ("loop0", "loop1"):
            self.pc.append(z3.BitVec(lp + ".0.discr", 64) == z3.BitVecVal(0, 64))
        # debug map is parallel to the code vector
        self.dm = self.vec("debug_map")
        self.dm.slots = {}
        self.pc.append(self.dm.len_term() == self.code.len_term())
        # line/column computation is a pure function of (sources, token): uninterpreted here (C17 has its own lemma)
        L.ex.overrides[r"(^|::)token_location$"] = token_location_stub
        if recording:
            rl = L.field(self.S, "State", "reverse_log")
            log = L.ex.summ.payload(rl, 0, "std::vec::Vec<state::ReverseStep>")
            self.log = log
            self.pc.append(z3.ULE(log.prefix[1], z3.BitVecVal(BIG, 64)))
            if log_nonempty:
                # every completed instruction ends its group of entries with SetIp: the newest old entry is a SetIp
                prev = Enum("state::ReverseStep", "SetIp", Struct("state::ReverseStep::SetIp", {0: Int(z3.BitVec("prev_ip", 64), 64, False)}))
                log.items = [prev]
        L.ex.overrides[r"^\?sym:"] = native_stub


def state_fields_equal(L, S0, S1, fields):
    from e2.symex import veq
    cs = []
    for f in fields:
        cs.append(veq(L.ex, L.field(S0, "State", f), L.field(S1, "State", f)))
    return cs


MACHINE_FIELDS = ["data_stack", "return_stack", "loops", "special", "heap", "ctx"]
