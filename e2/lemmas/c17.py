"""C17: every error points at the token that caused it - the machine-checked parts.

(a) run-time location: for every opcode arm of the real fetch_and_run, a failing step leaves ip on the failing
    instruction and leaves code and debug map untouched, so location_from_current_ip reads the token of the
    instruction that failed (also inside called words: ip is per instruction).
(b) debug-map alignment: code_emit keeps `debug_map` parallel to `code` and records the token that is current
    (last_token) for the emitted instruction; the panic arm is unreachable under the invariant.
(c) a build-time error report never overwrites the location of a run-time error that happened during the build
    (meta blocks): build0's error handler keeps an existing last_error.
The line/column computation itself (token_location) and the lexer are string algorithms: see C16 / DESIGN.md."""
import z3
from e2.values import *
from e2.prestate import *
from e2.symex import veq
from e2.lemmas.vm import *


def ip_lemma(opcode):
    def body(L):
        pre = VmPre(L, opcode=opcode)
        outs = L.run("fetch_and_run", [pre.xs], pre.pc, pre.roots())
        nerr = 0
        for o in outs:
            if o.kind != "return":
                L.fail(o, "%s must not panic" % opcode)
                continue
            S1 = final_state(L, o)
            L.require(o, veq(L.ex, L.field(S1, "State", "debug_map"), pre.dm), "%s: a step never touches the debug map" % opcode)
            if o.value.variant == "Err":
                nerr += 1
                ip1 = L.field(L.field(S1, "State", "ctx"), "Context", "ip").t
                L.require(o, ip1 == pre.ip.t, "%s: a failing step leaves ip on the failing instruction" % opcode)
                L.require(o, veq(L.ex, L.field(S1, "State", "code"), pre.code), "%s: a failing step leaves the code untouched" % opcode)
        if nerr == 0 and opcode in ("JumpIf", "JumpIfNot", "CaseOf", "Do", "NativeCall", "LoadLocal", "Load", "Store", "InitLocal"):
            L.undecided.append((L.cur, "VACUOUS: %s has no failing path" % opcode))
    return body


def code_emit_lemma(L):
    pre = Pre(L, stack=[])
    code, dm = pre.vec("code"), pre.vec("debug_map")
    pre.pc.append(z3.UGE(dm.len_term(), code.len_term()))          # the map is never shorter than the code
    pre.pc.append(z3.ULE(dm.len_term(), code.len_term() + 2))
    dm.slots = {}
    op = L.sym("opcodes::Opcode", "op")
    outs = L.run("code_emit", [pre.xs, op], pre.pc, pre.roots())
    L.witness(outs, lambda o: o.kind == "return" and o.value.variant == "Ok", "code_emit succeeds")
    lt = L.field(pre.S, "State", "last_token")
    for o in outs:
        if o.kind != "return":
            L.fail(o, "code_emit must not panic while the debug map is at least as long as the code: %s" % (o.msg or "")[:80])
            continue
        S1 = final_state(L, o)
        code1, dm1 = L.field(S1, "State", "code"), L.field(S1, "State", "debug_map")
        L.require(o, veq(L.ex, code1, Vec(code1.elem_ty, code.prefix, [op])), "code_emit appends exactly the instruction")
        L.require(o, z3.UGE(dm1.len_term(), code1.len_term()), "code_emit keeps the debug map at least as long as the code")
        L.require(o, z3.Implies(dm.len_term() == code.len_term(), dm1.len_term() == code1.len_term()), "code_emit keeps an aligned debug map aligned")
        # the entry for the new instruction is the current token
        at = code.len_term()
        entry = None
        if dm1.items and L.feasible(o, dm.len_term() == at):
            entry = dm1.items[-1]
        elif dm1.slots:
            key = str(z3.simplify(at))
            entry = dm1.slots.get(key, [None, None])[1]
        if entry is not None and lt.variant == "Some" if lt.variant is not None else False:
            L.require(o, veq(L.ex, entry, L.payload(lt, 0, "arcstr::Substr")), "code_emit records the current token for the new instruction")


def build_error_lemma(L):
    """build0's map_err closure: an already recorded (run-time) error location is kept."""
    pre = Pre(L, stack=[])
    le = L.field(pre.S, "State", "last_error")
    le.variant = "Some"
    L.ex.overrides[r"(^|::)token_location$"] = token_location_stub
    fn = None
    for n, f in L.ex.funcs.items():
        if n.endswith("::build0::{closure#0}"):
            fn = f
    if fn is None:
        raise Unsupported("build0's error closure not found")
    # the closure captures `self` (a &mut State) by unique borrow: its environment holds a reference to that reference
    env = FnVal(fn.name, Struct("closure-env", {0: Ref(Box(pre.xs, name="self_slot"))}))
    err = L.sym("error::Xerr", "e")
    outs = L.run(fn, [env, err], pre.pc, pre.roots())
    L.witness(outs, lambda o: o.kind == "return", "build0's error handler returns")
    for o in outs:
        if o.kind != "return":
            L.fail(o, "build0's error handler must not panic")
            continue
        S1 = final_state(L, o)
        L.require(o, veq(L.ex, L.field(S1, "State", "last_error"), le), "a build error does not overwrite the location of an error that was already reported (run-time error inside a meta block)",
                  cex=lambda m: {"lines": ["eval #( : f 1 0 / ; f #)", "error"], "expect": [("no_panic",), ("error_col", 11)]})


def tokloc_lemma(K, t, e):
    """the real token_location for the token [t, e) of a text of K arbitrary characters (multi-byte, CR, LF, tabs)"""
    from e2.strmodel import mk_text, Text
    NL, CR = z3.BitVecVal(10, 32), z3.BitVecVal(13, 32)

    def body(L):
        txt, cons = mk_text("src", K)
        sym = txt.sym
        tok = Text(sym, t, e, "substr")
        fname, _c = mk_text("fname", 1)
        S = L.ex.summ
        L.ex.overrides[r"(^|::)token_filename$"] = lambda ex_, st, fr, c, a: S.option("ArcStr", fname)
        sources = L.sym("&[(arcstr::ArcStr, arcstr::ArcStr)]", "sources")
        try:
            outs = L.run("lex::token_location", [sources, Ref(Box(tok, name="tok"))], cons, {})
        finally:
            L.ex.overrides.pop(r"(^|::)token_filename$", None)
        hx = lambda m: "".join(chr(m.eval(c, model_completion=True).as_long()) for c in sym.chars)

        def cex(m):
            text = hx(m)
            a = len(text[:t].encode())
            b = len(text[:e].encode())
            return {"lines": ["tokloc %d %d %s" % (a, b, text.encode().hex())], "expect": [("tokloc_spec", a, text.encode().hex())]}
        L.witness(outs, lambda o: o.kind == "return" and o.value.variant == "Some", "token_location answers")
        isnl = lambda c: z3.Or(c == NL, c == CR)
        for o in outs:
            if o.kind != "return":
                L.fail(o, "token_location must not panic (%s)" % (o.msg or "")[:80], cex=cex)
                continue
            if o.value.variant != "Some":
                L.fail(o, "token_location answers for a token of a known source", cex=cex)
                continue
            loc = o.value.payload.fields[0]
            line, col, wl, tk = loc.fields[0].t, loc.fields[1].t, loc.fields[3], loc.fields[4]
            exp_line = z3.BitVecVal(0, 64)
            for c in sym.chars[:t]:
                exp_line = exp_line + z3.If(c == NL, z3.BitVecVal(1, 64), z3.BitVecVal(0, 64))
            L.require(o, line == exp_line, "the line number counts the line feeds before the token", cex=cex)
            if not L.require(o, z3.BoolVal(isinstance(wl, Text) and wl.sym.name == sym.name and wl.lo <= t <= wl.hi), "the quoted line is a piece of the source that contains the token start", cex=cex):
                continue
            L.require(o, z3.And(*[z3.Not(isnl(c)) for c in sym.chars[wl.lo:wl.hi]]) if wl.hi > wl.lo else z3.BoolVal(True), "the quoted line holds no line break", cex=cex)
            L.require(o, isnl(sym.chars[wl.lo - 1]) if wl.lo > 0 else z3.BoolVal(True), "the quoted line starts right after a line break (or at the start)", cex=cex)
            L.require(o, isnl(sym.chars[wl.hi]) if wl.hi < K else z3.BoolVal(True), "the quoted line ends at the next line break (or at the end)", cex=cex)
            L.require(o, col == z3.BitVecVal(t - wl.lo, 64), "the column is the number of characters between the line start and the token", cex=cex)
            L.require(o, z3.BoolVal(isinstance(tk, Text) and (tk.lo, tk.hi) == (t, e)), "the reported token is the token asked about", cex=cex)
    return body


def tokloc_selftest(L):
    """translator self-test: token_location of every token of the repository's lexer test inputs (plus CR/LF and
    multi-byte samples), mirsym on concrete characters vs the real binary"""
    from e2.driver import build_replayer, run_scenario
    from e2.lemmas.c16 import harvest_lexer_tests
    from e2.strmodel import SymText, Text, mk_text
    from e2.lemma import Obligation
    ok, msg = build_replayer()
    if not ok:
        raise Unsupported("replayer build failed: " + msg)
    texts = harvest_lexer_tests() + ["a\r\nbb\n\tcc é d\rx", "ü\nüü z"]
    n = tot = 0
    cv = lambda t: z3.simplify(t).as_long()
    fname, _c = mk_text("fname", 1)
    S = L.ex.summ
    L.ex.overrides[r"(^|::)token_filename$"] = lambda ex_, st, fr, c, a: S.option("ArcStr", fname)
    lb0, L.ex.loop_bound = L.ex.loop_bound, 80
    try:
        for text in texts:
            if not text:
                continue
            chars = [z3.BitVecVal(ord(c), 32) for c in text]
            sym = SymText("tl", chars)
            starts = [i for i in range(len(text) + 1) if i == len(text) or not text[i].isspace()][:12]
            for t in starts:
                tot += 1
                a = len(text[:t].encode())
                b = len(text[:min(t + 1, len(text))].encode())
                rc, out = run_scenario(["tokloc %d %d %s" % (a, b, text.encode().hex())], False)
                native = [l for l in out.splitlines() if l.startswith("TOKLOC ")]
                tok = Text(sym, t, min(t + 1, len(text)), "substr")
                sources = L.sym("&[(arcstr::ArcStr, arcstr::ArcStr)]", "sources")
                outs = [o for o in L.run("lex::token_location", [sources, Ref(Box(tok, name="tok"))], [], {}) if L.feasible(o)]
                mine = None
                if len(outs) == 1 and outs[0].kind == "return" and outs[0].value.variant == "Some":
                    loc = outs[0].value.payload.fields[0]
                    wl = loc.fields[3]
                    mine = "TOKLOC %d %d %d %d" % (cv(loc.fields[0].t), cv(loc.fields[1].t), cv(sym.offs[wl.lo]), cv(sym.offs[wl.hi]))
                if not native or native[0] != mine:
                    L.undecided.append((L.cur, "TRANSLATOR MISMATCH token_location(%r, char %d): native %s vs mirsym %s" % (text, t, native[:1], mine)))
                else:
                    n += 1
    finally:
        L.ex.overrides.pop(r"(^|::)token_filename$", None)
        L.ex.loop_bound = lb0
    L.selftest_traces = getattr(L, "selftest_traces", 0) + n
    L.obligations.append(Obligation(L.cur, "translator self-test: %d of %d token locations agree between mirsym and the real binary" % (n, tot), "holds"))


def run(L, tier, only=None):
    L.ex.path_budget = 8000
    ops = [o for o in OPCODES if o != "Resolve"]
    if tier == "quick":
        ops = ["JumpIfNot", "CaseOf", "Call", "Ret", "Do", "Loop", "Break", "NativeCall", "LoadLocal", "Store", "InitLocal"]
    for op in ops:
        if not only or op in only or "ip" in only:
            L.lemma("C17 ip on error, " + op, ip_lemma(op))
    if not only or "emit" in only:
        L.lemma("C17 code_emit alignment", code_emit_lemma)
    if not only or "build" in only:
        L.lemma("C17 build error keeps run-time location", build_error_lemma)
    if not only or "selftest" in only:
        L.lemma("C17 translator self-test, token_location", tokloc_selftest)
    # line / column / quoted line: every text of K characters, every token start
    shapes = [(1, 0, 1), (2, 1, 2), (3, 2, 3), (4, 3, 4), (4, 2, 3), (4, 4, 4), (5, 4, 5)] if tier == "quick" else \
             [(K, t, min(t + 1, K)) for K in range(1, 7) for t in range(0, K + 1)]
    for K, t, e in shapes:
        if not only or "tokloc" in only:
            L.lemma("C17 token_location, %d chars, token at char %d" % (K, t), tokloc_lemma(K, t, e))
    L.ex.path_budget = None
