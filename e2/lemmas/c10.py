"""C10: a source that fails to build has no effect on anything submitted afterwards.

Error-path frame lemmas on the real build_from_source (eval / compile entry point): the source-level builder
`build0` is replaced by failing builds - (a) one that fails at once, (b) the most general one allowed by the
builder's own frame: it may leave pending control structures, unclosed meta contexts, included sources, emitted
code and new dictionary entries behind and then return an error. On Err the bookkeeping every later source
depends on must be what it was at entry. Plus the REPL path: a run-time failure must not be re-executed by the
next compile + run. The sealing lemmas on the pending-flow accessors are shared with C11."""
import z3
from e2.values import *
from e2.prestate import *
from e2.symex import veq
from e2.lemmas.vm import *
from e2.lemmas import c11

BOOKKEEPING = ["nested", "ctx", "input", "flow_stack", "loops", "special", "return_stack", "dict"]


def failing_build(kind):
    def stub(ex_, st, fr, callee, args):
        xs = args[0]
        S = ex_.get_at(st, xs.box, xs.path)
        L = stub.L
        if kind == "general":
            # leftovers of a build that got half way: an open `if`, an open meta block, an included file, some code
            fs = L.field(S, "State", "flow_stack")
            fs.items.append(Enum("state::Flow", "If", Struct("state::Flow::If", {0: Int(z3.BitVec("leak_org", 64), 64, False)})))
            nested = L.field(S, "State", "nested")
            nested.items.append(clone_val(L.field(S, "State", "ctx")))
            ctx = L.field(S, "State", "ctx")
            L.field(ctx, "Context", "mode").variant = "MetaEval"
            ctx.fields[0] = Int(L.field(S, "State", "data_stack").len_term(), 64, False)       # ds_len hides the stack
            inp = L.field(S, "State", "input")
            inp.items.append(mk_sym(ex_.tc, "lex::Lex", "leak_lex"))
            code, dm = L.field(S, "State", "code"), L.field(S, "State", "debug_map")
            code.items.append(mk_sym(ex_.tc, "opcodes::Opcode", "leak_op"))
            dm.items.append(mk_sym(ex_.tc, "arcstr::Substr", "leak_tok"))
            L.field(S, "State", "dict").items.append(mk_sym(ex_.tc, "state::DictEntry", "leak_word"))     # a word defined by the rejected source
        err = mk_sym(ex_.tc, "error::Xerr", "build_error")
        return Enum("Result<(), error::Xerr>", "Err", Struct("", {0: err}))
    return stub


# native scenarios per leftover: what a user would see if that piece of bookkeeping survived a rejected source
FIELD_SCEN = {
    "nested": (["eval 7", "eval #( foo #)", "eval 8", "stack"], [("no_panic",), ("last_result_in", ["ok"]), ("depth", 2)]),
    "ctx": (["eval 7", "eval #( foo #)", "eval 8", "stack"], [("no_panic",), ("last_result_in", ["ok"]), ("depth", 2)]),
    "input": (["eval #( \"1 nosuchword 2\" ~) 777", "eval 5", "stack"], [("no_panic",), ("last_result_in", ["ok"]), ("depth", 1)]),
    "flow_stack": (["eval 1 if", "eval 5 var zz", "stack"], [("no_panic",), ("last_result_in", ["ok"]), ("depth", 0)]),
    "special": (["eval [ 1 2 foo", "eval 3 ]", "stack"], [("no_panic",), ("last_result_in", ["err"])]),
    "loops": (["eval 3 0 do foo loop", "eval I"], [("no_panic",), ("last_result_in", ["err"])]),
    "return_stack": (["eval : f foo ; f", "eval 5", "stack"], [("no_panic",), ("last_result_in", ["ok"]), ("depth", 1)]),
    "dict": (["eval : f 1 ; foo", "eval f"], [("no_panic",), ("last_result_in", ["err UnknownWord"])]),
}

SCEN = {
    "immediate": (["eval 1 foo 2 3", "eval 4", "stack"], [("no_panic",), ("depth", 1)]),
    "general": (["eval 7", "eval #( foo #)", "eval 8", "stack"], [("no_panic",), ("last_result_in", ["ok"]), ("depth", 2)]),
}


def frame_lemma(kind, mode):
    def body(L):
        pre = Pre(L, stack=[L.cell("a")])
        for v in ("input",):
            vec = pre.vec(v)
            pre.pc.append(z3.ULE(vec.prefix[1], z3.BitVecVal(BIG, 64)))
        # the debug map is parallel to the code (C17's code_emit lemma keeps it so)
        pre.pc.append(pre.vec("debug_map").len_term() == pre.vec("code").len_term())
        # no failed run is pending (that case: rerun lemmas; dropping its remainder is idempotent, so doing it for a
        # source that is then rejected equals doing it for the next accepted one)
        le = L.field(pre.S, "State", "last_error")
        pre.pc.append(z3.Or(L.is_variant(le, "None"), z3.UGE(pre.ip.t, pre.vec("code").len_term()), pre.vec("nested").len_term() != 0))
        src = L.sym("arcstr::ArcStr", "src")
        m = Enum("state::ContextMode", mode, None)
        stub = failing_build(kind)
        stub.L = L
        L.ex.overrides[r"State::build0$|::build0$"] = stub
        L.ex.overrides[r"Lex::new$|lex::.*::new$"] = lambda ex_, st, fr, c, a: mk_sym(ex_.tc, "lex::Lex", ex_.fresh_name("lex"))
        try:
            outs = L.run("build_from_source", [pre.xs, src, m], pre.pc, pre.roots())
        finally:
            L.ex.overrides.pop(r"State::build0$|::build0$", None)
            L.ex.overrides.pop(r"Lex::new$|lex::.*::new$", None)
        L.witness(outs, lambda o: o.kind == "return" and o.value.variant == "Err", "the failing build is reported")
        lines, exp = SCEN[kind]
        cex = lambda m_: {"lines": lines, "expect": exp}
        for o in outs:
            if o.kind != "return":
                L.fail(o, "build_from_source must not panic: %s" % (o.msg or "")[:80])
                continue
            if o.value.variant != "Err":
                continue
            S1 = final_state(L, o)
            for f in BOOKKEEPING:
                fs = FIELD_SCEN.get(f)
                L.require(o, veq(L.ex, L.field(S1, "State", f), L.field(pre.S, "State", f)),
                          "%s failing build (%s mode): `%s` is back to what it was before the source was submitted" % (kind, mode, f),
                          cex=(lambda m_, fs=fs: {"lines": fs[0], "expect": fs[1]}) if fs else cex)
            L.require(o, veq(L.ex, L.field(S1, "State", "data_stack"), pre.ds), "%s failing build (%s mode): values already on the data stack stay" % (kind, mode), cex=cex)
            code1, dm1 = L.field(S1, "State", "code"), L.field(S1, "State", "debug_map")
            ip1 = L.field(L.field(S1, "State", "ctx"), "Context", "ip").t
            # half-compiled code is either gone or can never be reached: ip is not left in front of it
            L.require(o, z3.Or(veq(L.ex, code1, pre.vec("code")), z3.UGE(ip1, code1.len_term())),
                      "%s failing build (%s mode): half-compiled code is removed or unreachable" % (kind, mode), cex=cex)
            L.require(o, code1.len_term() == dm1.len_term(), "%s failing build (%s mode): code and debug map stay parallel" % (kind, mode))
    return body


def ok_build(ex_, st, fr, callee, args):
    """a build that succeeds and leaves nothing open (what it emitted is irrelevant here: it emits nothing)"""
    return Enum("Result<(), error::Xerr>", "Ok", Struct("", {0: Unit()}))


def rerun_lemma(failed):
    """compile of the next line at top level. failed=True: the previous line stopped at a run-time error
    (last_error set, ip inside the old code): its remainder must be skipped and its frames dropped.
    failed=False: nothing failed, so code compiled earlier and not yet run must stay scheduled."""
    def body(L):
        pre = Pre(L, stack=[L.cell("a")])
        code = pre.vec("code")
        pre.pc.append(pre.vec("nested").len_term() == 0)
        pre.pc.append(z3.ULT(pre.ip.t, code.len_term()))                     # is_running(): something of the old line is left
        pre.pc.append(pre.vec("debug_map").len_term() == code.len_term())
        vec = pre.vec("input")
        pre.pc.append(z3.ULE(vec.prefix[1], z3.BitVecVal(BIG, 64)))
        le = L.field(pre.S, "State", "last_error")
        le.variant = "Some" if failed else "None"
        L.field(pre.ctx, "Context", "mode").variant = "Eval"
        src = L.sym("arcstr::ArcStr", "src")
        L.ex.overrides[r"State::build0$|::build0$"] = ok_build
        L.ex.overrides[r"Lex::new$|lex::.*::new$"] = lambda ex_, st, fr, c, a: mk_sym(ex_.tc, "lex::Lex", ex_.fresh_name("lex"))
        try:
            outs = L.run("build_from_source", [pre.xs, src, Enum("state::ContextMode", "Compile", None)], pre.pc, pre.roots())
        finally:
            L.ex.overrides.pop(r"State::build0$|::build0$", None)
            L.ex.overrides.pop(r"Lex::new$|lex::.*::new$", None)
        L.witness(outs, lambda o: o.kind == "return" and o.value.variant == "Ok", "the next line compiles")
        cex = lambda m_: {"lines": ["compile 1 0 /", "run", "compile 5", "run", "stack"], "expect": [("no_panic",), ("last_result_in", ["ok"]), ("top_in", [("int", "5")])]}
        for o in outs:
            if o.kind != "return":
                L.fail(o, "build_from_source must not panic: %s" % (o.msg or "")[:80])
                continue
            if o.value.variant != "Ok":
                continue
            S1 = final_state(L, o)
            ip1 = L.field(L.field(S1, "State", "ctx"), "Context", "ip").t
            if failed:
                L.require(o, z3.UGE(ip1, code.len_term()), "after a run-time failure, compiling the next line skips what is left of the failed line (it would be re-executed)", cex=cex)
                for f, mark in (("return_stack", "rs_len"), ("loops", "ls_len"), ("special", "ss_ptr")):
                    v1 = L.field(S1, "State", f)
                    L.require(o, v1.len_term() == L.field(pre.ctx, "Context", mark).t, "after a run-time failure the failed line's %s entries are dropped" % f, cex=cex)
                L.require(o, veq(L.ex, L.field(S1, "State", "data_stack"), pre.ds), "values on the data stack stay")
            else:
                L.require(o, ip1 == pre.ip.t, "without a failure, code compiled earlier and not yet run stays scheduled (compile; compile; run)")
                for f in ("return_stack", "loops", "special", "data_stack"):
                    L.require(o, veq(L.ex, L.field(S1, "State", f), L.field(pre.S, "State", f)), "without a failure compiling a line leaves %s alone" % f)
    return body


def run(L, tier, only=None):
    L.ex.path_budget = 6000
    for kind in ("immediate", "general"):
        for mode in ("Eval", "Compile"):
            if not only or kind in only or "frame" in only:
                L.lemma("C10 %s failing build, %s" % (kind, mode), frame_lemma(kind, mode))
    if not only or "rerun" in only:
        L.lemma("C10 failed run is not re-executed", rerun_lemma(True))
        L.lemma("C10 pending code survives a compile when nothing failed", rerun_lemma(False))
    for fname, mk, exp in c11.SEALED:
        if fname in ("pop_flow", "take_first_cond_flow", "top_function_flow", "has_pending_flow"):
            if not only or fname in only or "sealed" in only:
                L.lemma("C10 sealed " + fname, c11.sealed_lemma(fname, mk, exp))
    L.ex.path_budget = None
