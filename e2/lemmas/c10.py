"""C10: a source that fails to build has no effect on anything submitted afterwards.

Error-path frame lemmas on the real build_from_source (eval / compile entry point): the source-level builder
`build0` is replaced by failing builds - (a) one that fails at once, (b) the most general one allowed by the
builder's own frame: it may leave pending control structures, unclosed meta contexts, included sources, emitted
code and new dictionary entries behind and then return an error. On Err the bookkeeping every later source
depends on must be what it was at entry. Plus the REPL path: a run-time failure must not be re-executed by the
next compile + run. The sealing lemmas on the pending-flow accessors are shared with C11."""
import z3
from e2.values import *
from e2.prestate import *
from e2.symex import veq
from e2.lemmas.vm import *
from e2.lemmas import c11

BOOKKEEPING = ["nested", "ctx", "input", "flow_stack", "loops", "special", "return_stack"]


def failing_build(kind):
    def stub(ex_, st, fr, callee, args):
        xs = args[0]
        S = ex_.get_at(st, xs.box, xs.path)
        L = stub.L
        if kind == "general":
            # leftovers of a build that got half way: an open `if`, an open meta block, an included file, some code
            fs = L.field(S, "State", "flow_stack")
            fs.items.append(Enum("state::Flow", "If", Struct("state::Flow::If", {0: Int(z3.BitVec("leak_org", 64), 64, False)})))
            nested = L.field(S, "State", "nested")
            nested.items.append(clone_val(L.field(S, "State", "ctx")))
            ctx = L.field(S, "State", "ctx")
            L.field(ctx, "Context", "mode").variant = "MetaEval"
            ctx.fields[0] = Int(L.field(S, "State", "data_stack").len_term(), 64, False)       # ds_len hides the stack
            inp = L.field(S, "State", "input")
            inp.items.append(mk_sym(ex_.tc, "lex::Lex", "leak_lex"))
            code, dm = L.field(S, "State", "code"), L.field(S, "State", "debug_map")
            code.items.append(mk_sym(ex_.tc, "opcodes::Opcode", "leak_op"))
            dm.items.append(mk_sym(ex_.tc, "arcstr::Substr", "leak_tok"))
        err = mk_sym(ex_.tc, "error::Xerr", "build_error")
        return Enum("Result<(), error::Xerr>", "Err", Struct("", {0: err}))
    return stub


SCEN = {
    "immediate": (["eval 1 foo 2 3", "eval 4", "stack"], [("no_panic",), ("depth", 1)]),
    "general": (["eval 7", "eval #( foo #)", "eval 8", "stack"], [("no_panic",), ("last_result_in", ["ok"]), ("depth", 2)]),
}


def frame_lemma(kind, mode):
    def body(L):
        pre = Pre(L, stack=[L.cell("a")])
        for v in ("input",):
            vec = pre.vec(v)
            pre.pc.append(z3.ULE(vec.prefix[1], z3.BitVecVal(BIG, 64)))
        src = L.sym("arcstr::ArcStr", "src")
        m = Enum("state::ContextMode", mode, None)
        stub = failing_build(kind)
        stub.L = L
        L.ex.overrides[r"State::build0$|::build0$"] = stub
        L.ex.overrides[r"Lex::new$|lex::.*::new$"] = lambda ex_, st, fr, c, a: mk_sym(ex_.tc, "lex::Lex", ex_.fresh_name("lex"))
        try:
            outs = L.run("build_from_source", [pre.xs, src, m], pre.pc, pre.roots())
        finally:
            L.ex.overrides.pop(r"State::build0$|::build0$", None)
            L.ex.overrides.pop(r"Lex::new$|lex::.*::new$", None)
        L.witness(outs, lambda o: o.kind == "return" and o.value.variant == "Err", "the failing build is reported")
        lines, exp = SCEN[kind]
        cex = lambda m_: {"lines": lines, "expect": exp}
        for o in outs:
            if o.kind != "return":
                L.fail(o, "build_from_source must not panic: %s" % (o.msg or "")[:80])
                continue
            if o.value.variant != "Err":
                continue
            S1 = final_state(L, o)
            for f in BOOKKEEPING:
                L.require(o, veq(L.ex, L.field(S1, "State", f), L.field(pre.S, "State", f)),
                          "%s failing build (%s mode): `%s` is back to what it was before the source was submitted" % (kind, mode, f), cex=cex)
            L.require(o, veq(L.ex, L.field(S1, "State", "data_stack"), pre.ds), "%s failing build (%s mode): values already on the data stack stay" % (kind, mode), cex=cex)
            code1, dm1 = L.field(S1, "State", "code"), L.field(S1, "State", "debug_map")
            ip1 = L.field(L.field(S1, "State", "ctx"), "Context", "ip").t
            # half-compiled code is either gone or can never be reached: ip is not left in front of it
            L.require(o, z3.Or(veq(L.ex, code1, pre.vec("code")), z3.UGE(ip1, code1.len_term())),
                      "%s failing build (%s mode): half-compiled code is removed or unreachable" % (kind, mode), cex=cex)
            L.require(o, code1.len_term() == dm1.len_term(), "%s failing build (%s mode): code and debug map stay parallel" % (kind, mode))
    return body


def rerun_lemma(L):
    """compile; run fails at ip0; compile (open + close of a Compile context); the next run must not resume at ip0."""
    pre = VmPre(L, opcode=None)
    outs = L.run("fetch_and_run", [pre.xs], pre.pc, pre.roots())
    n = 0
    for o in outs:
        if o.kind != "return" or o.value.variant != "Err":
            continue
        k = L.result_kind(o)
        if k[1] == "ErrorMsg":
            continue
        n += 1
        if n > 6:
            break
        xs1 = o.st.ghost["roots"]["xs"]
        m = Enum("state::ContextMode", "Compile", None)
        o2s = L.run("context_open", [xs1, m], list(o.st.pc), {"xs": xs1})
        for o2 in o2s:
            if o2.kind != "return" or o2.value.variant != "Ok":
                continue
            xs2 = o2.st.ghost["roots"]["xs"]
            o3s = L.run("context_close", [xs2], list(o2.st.pc), {"xs": xs2})
            for o3 in o3s:
                if o3.kind != "return" or o3.value.variant != "Ok":
                    continue
                S3 = final_state(L, o3)
                ip3 = L.field(L.field(S3, "State", "ctx"), "Context", "ip").t
                L.require(o3, ip3 != pre.ip.t, "after a run-time failure, compiling the next line does not leave ip on the failed instruction (it would be re-executed)",
                          cex=lambda m_: {"lines": ["compile 1 0 /", "run", "compile 5", "run", "stack"], "expect": [("no_panic",), ("last_result_in", ["ok"]), ("top_in", [("int", "5")])]})
    if n == 0:
        L.undecided.append((L.cur, "VACUOUS: no failing step found"))


def run(L, tier, only=None):
    L.ex.path_budget = 6000
    for kind in ("immediate", "general"):
        for mode in ("Eval", "Compile"):
            if not only or kind in only or "frame" in only:
                L.lemma("C10 %s failing build, %s" % (kind, mode), frame_lemma(kind, mode))
    if not only or "rerun" in only:
        L.lemma("C10 failed run is not re-executed", rerun_lemma)
    for fname, mk, exp in c11.SEALED:
        if fname in ("pop_flow", "take_first_cond_flow", "top_function_flow", "has_pending_flow"):
            if not only or fname in only or "sealed" in only:
                L.lemma("C10 sealed " + fname, c11.sealed_lemma(fname, mk, exp))
    L.ex.path_budget = None
