"""C09: arithmetic, comparison and bitwise words against exact integer / IEEE semantics.
Every word is run as real MIR from a symbolic interpreter state whose top one or two stack cells are
arbitrary cells (any variant, full-width payloads); the oracle is stated on z3 bit-vectors / floats."""
import z3
from e2.values import *
from e2.lemma import word_map, word_call
from e2.prestate import *
from e2.symex import veq, fp_fmod, fp_to_int_sat
from e2.scen import *


def scenario(word, names, expect_fn):
    """cex builder: push the operands named `names` (model values), eval the word, observe."""
    def build(m):
        lines = [cell_push_line(m, n) for n in names] + ["stack", "eval " + word, "stack"]
        return {"lines": lines, "expect": expect_fn(m)}
    return build


def spec_expect(allowed):
    """expectation for an oracle case: one of the allowed outcome specs"""
    def f(m):
        alts = []
        for spec in allowed:
            if spec[0] == "err":
                alts.append([("last_result_in", ["err " + spec[1]])])
            elif spec[0] == "val":
                alts.append([("last_result_in", ["ok"]), ("top_in", [("int", str(signed(sval(m, spec[1]), 128)))])])
            elif spec[0] == "any_int":
                alts.append([("last_result_in", ["ok"]), ("top_type", "int")])
            elif spec[0] == "flag":
                b = m.eval(spec[1], model_completion=True)
                alts.append([("last_result_in", ["ok"]), ("top_in", [("flag", "true" if z3.is_true(b) else "false")])])
            elif spec[0] == "any_flag":
                alts.append([("last_result_in", ["ok"]), ("top_type", "flag")])
            elif spec[0] == "real":
                alts.append([("last_result_in", ["ok"]), real_expect(m, spec[1])])
            elif spec[0] == "real_pred":
                alts.append([("last_result_in", ["ok"]), ("top_type", "real")])
        return [("no_panic",), ("any_of", alts)]
    return f

MIN128 = z3.BitVecVal(-(1 << 127), 128)
RNE = z3.RNE()
F64 = z3.Float64()


def fp_minmax_ok(r, a, b, is_min):
    """IEEE minNum/maxNum as Rust documents f64::min/max: NaN operand -> the other; sign of zero free."""
    lt = z3.fpLT(a, b) if is_min else z3.fpGT(a, b)
    gt = z3.fpGT(a, b) if is_min else z3.fpLT(a, b)
    return z3.If(z3.fpIsNaN(a), r == b if False else z3.Or(r == b, z3.And(z3.fpIsNaN(b), z3.fpIsNaN(r))),
                 z3.If(z3.fpIsNaN(b), r == a,
                       z3.If(lt, r == a, z3.If(gt, r == b, z3.Or(r == a, r == b)))))


# word -> (int oracle, real oracle); each oracle: (a, b) -> ("val", term) | ("flag", boolterm) | ("err", name)
#                                                 | ("cases", [(cond, outcome-spec or list of allowed specs)])
def int_ops():
    def div(a, b):
        return [(b == 0, [("err", "DivisionByZero")]),
                (z3.And(a == MIN128, b == -1), [("val", MIN128), ("err", "IntegerOverflow")]),
                (z3.And(b != 0, z3.Not(z3.And(a == MIN128, b == -1))), [("val", a / b)])]

    def rem(a, b):
        return [(b == 0, [("err", "DivisionByZero")]),
                (b != 0, [("val", z3.If(b == -1, z3.BitVecVal(0, 128), z3.SRem(a, b)))])]

    def shift(left):
        def f(a, b):
            inr = z3.And(b >= 0, b <= 127)
            r = (a << b) if left else (a >> b)
            return [(inr, [("val", r)]), (z3.Not(inr), [("any_int",)])]
        return f
    return {
        "+": lambda a, b: [(True, [("val", a + b)])],
        "-": lambda a, b: [(True, [("val", a - b)])],
        "*": lambda a, b: [(True, [("val", a * b)])],
        "/": div, "rem": rem,
        "min": lambda a, b: [(True, [("val", z3.If(a < b, a, b))])],
        "max": lambda a, b: [(True, [("val", z3.If(a < b, b, a))])],
        "<": lambda a, b: [(True, [("flag", a < b)])], "<=": lambda a, b: [(True, [("flag", a <= b)])],
        ">": lambda a, b: [(True, [("flag", a > b)])], ">=": lambda a, b: [(True, [("flag", a >= b)])],
        "==": lambda a, b: [(True, [("flag", a == b)])], "<>": lambda a, b: [(True, [("flag", a != b)])],
        "band": lambda a, b: [(True, [("val", a & b)])], "bor": lambda a, b: [(True, [("val", a | b)])],
        "bxor": lambda a, b: [(True, [("val", a ^ b)])],
        "bsl": shift(True), "bsr": shift(False),
    }


def real_ops():
    ordered = lambda a, b: z3.Not(z3.Or(z3.fpIsNaN(a), z3.fpIsNaN(b)))

    def cmp(op):
        def f(a, b):
            return [(ordered(a, b), [("flag", op(a, b))]), (z3.Not(ordered(a, b)), [("any_flag",)])]
        return f
    return {
        "+": lambda a, b: [(True, [("real", z3.fpAdd(RNE, a, b))])],
        "-": lambda a, b: [(True, [("real", z3.fpSub(RNE, a, b))])],
        "*": lambda a, b: [(True, [("real", z3.fpMul(RNE, a, b))])],
        "/": lambda a, b: [(z3.fpIsZero(b), [("err", "DivisionByZero")]), (z3.Not(z3.fpIsZero(b)), [("real", z3.fpDiv(RNE, a, b))])],
        "rem": lambda a, b: [(True, [("real", fp_fmod(a, b))])],
        "min": lambda a, b: [(True, [("real_pred", lambda r: fp_minmax_ok(r, a, b, True))])],
        "max": lambda a, b: [(True, [("real_pred", lambda r: fp_minmax_ok(r, a, b, False))])],
        "<": cmp(z3.fpLT), "<=": cmp(z3.fpLEQ), ">": cmp(z3.fpGT), ">=": cmp(z3.fpGEQ),
        "==": cmp(z3.fpEQ), "<>": cmp(lambda a, b: z3.Not(z3.fpEQ(a, b))),
    }


def unary_int():
    def neg(a):
        return [(a == MIN128, [("val", MIN128), ("err", "IntegerOverflow")]), (a != MIN128, [("val", -a)])]

    def popcnt(a):
        acc = z3.BitVecVal(0, 128)
        for i in range(128):
            acc = acc + z3.ZeroExt(127, z3.Extract(i, i, a))
        return [(True, [("val", acc)])]
    return {
        "neg": neg,
        "abs": lambda a: [(a == MIN128, [("val", MIN128), ("err", "IntegerOverflow")]), (a != MIN128, [("val", z3.If(a < 0, -a, a))])],
        "bnot": lambda a: [(True, [("val", ~a)])],
        "popcnt": popcnt,
        ">int": lambda a: [(True, [("val", a)])],
        ">real": lambda a: [(True, [("real", z3.fpSignedToFP(RNE, a, F64))])],
        "zero?": lambda a: [(True, [("flag", a == 0)])],
        "positive?": lambda a: [(True, [("flag", a > 0)])],
        "negative?": lambda a: [(True, [("flag", a < 0)])],
    }


def unary_real():
    lo = z3.fpSignedToFP(z3.RTZ(), MIN128, F64)        # -2^127 exactly
    hi = z3.fpNeg(lo)                                    # 2^127

    def to_int(x):
        inside = z3.And(z3.Not(z3.fpIsNaN(x)), z3.fpGEQ(x, lo), z3.fpLT(x, hi))
        return [(inside, [("val", z3.fpToSBV(z3.RTZ(), x, z3.BitVecSort(128)))]), (z3.Not(inside), [("any_int",)])]
    return {
        "neg": lambda x: [(True, [("real", z3.fpNeg(x))])],
        "abs": lambda x: [(True, [("real", z3.fpAbs(x))])],
        "round": lambda x: [(True, [("real", z3.fpRoundToIntegral(z3.RNA(), x))])],
        ">int": to_int,
        ">real": lambda x: [(True, [("real", x)])],
        "zero?": lambda x: [(True, [("flag", z3.fpIsZero(x))])],
        "positive?": lambda x: [(True, [("flag", z3.fpGT(x, z3.FPVal(0.0, F64)))])],
        "negative?": lambda x: [(True, [("flag", z3.fpLT(x, z3.FPVal(0.0, F64)))])],
    }


NAMES = {1: ["a"], 2: ["a", "b"]}
NO_PANIC = lambda m: [("no_panic",)]
TYPE_ERR = lambda m: [("no_panic",), ("err_val_is_operand",)]

BINARY = ["+", "-", "*", "/", "rem", "min", "max", "<", "<=", ">", ">=", "==", "<>", "band", "bor", "bxor", "bsl", "bsr"]
UNARY = ["neg", "abs", "bnot", "popcnt", "round", ">int", ">real", "zero?", "positive?", "negative?"]
# words whose operands must both be ints / the operand must be of that class, anything else is a type error
INT_ONLY = {"band", "bor", "bxor", "bsl", "bsr", "bnot", "popcnt"}
REAL_ONLY = {"round"}


def check_spec(L, o, word, cases, S1, pre, consumed, operands):
    """cases: [(cond, [allowed outcome specs])] ; the path must satisfy one allowed spec under each cond it can meet."""
    ex = L.ex
    kind = L.result_kind(o)
    ds1 = L.field(S1, "State", "data_stack")
    ok_all = True
    for cond, allowed in cases:
        cond = z3.BoolVal(True) if cond is True else cond
        if not L.feasible(o, cond):
            continue
        alts = []
        for spec in allowed:
            if spec[0] == "err":
                alts.append(z3.BoolVal(kind[0] == "Err" and kind[1] == spec[1]))
                continue
            if kind[0] != "Ok":
                alts.append(z3.BoolVal(False))
                continue
            # success: stack = untouched prefix + [result]
            shape = ds1.prefix is not None and ds1.prefix[0] == pre.ds.prefix[0] and len(ds1.items) == 1
            if not shape:
                alts.append(z3.BoolVal(False))
                continue
            c = ds1.items[0]
            same_prefix = veq(L.ex, ds1, Vec(ds1.elem_ty, pre.ds.prefix, [c]))
            if not isinstance(c, Enum) or c.variant is None:
                alts.append(z3.BoolVal(False))
                continue
            if spec[0] == "val":
                alts.append(z3.And(same_prefix, L.payload(c, 0, "i128").t == spec[1]) if c.variant == "Int" else z3.BoolVal(False))
            elif spec[0] == "any_int":
                alts.append(z3.And(same_prefix, z3.BoolVal(c.variant == "Int")))
            elif spec[0] == "flag":
                alts.append(z3.And(same_prefix, L.payload(c, 0, "bool").t == spec[1]) if c.variant == "Flag" else z3.BoolVal(False))
            elif spec[0] == "any_flag":
                alts.append(z3.And(same_prefix, z3.BoolVal(c.variant == "Flag")))
            elif spec[0] == "real":
                alts.append(z3.And(same_prefix, L.payload(c, 0, "f64").t == spec[1]) if c.variant == "Real" else z3.BoolVal(False))
            elif spec[0] == "real_pred":
                alts.append(z3.And(same_prefix, spec[1](L.payload(c, 0, "f64").t)) if c.variant == "Real" else z3.BoolVal(False))
        desc = "%s: result for %s is one of %s" % (word, operands, [s[0] + (":" + s[1] if s[0] == "err" else "") for s in allowed])
        ok_all &= L.require(o, z3.Or(*alts) if alts else z3.BoolVal(False), desc, extra_pc=[cond],
                            cex=scenario(word, NAMES[consumed], spec_expect(allowed)))
    return ok_all


def type_error_ok(L, o, pre, cells):
    """Err(TypeErrorMsg{val}) with val one of the actual operands; stack below the operands untouched."""
    kind = L.result_kind(o)
    if kind[0] != "Err" or kind[1] != "TypeErrorMsg":
        return z3.BoolVal(False)
    val = kind[2].payload.fields[0]       # field order: val, msg
    return z3.Or(*[veq(L.ex, val, c) for c in cells])


def stack_below_untouched(L, o, pre, S1, max_left):
    """Ok: untouched prefix + exactly one result. Err: untouched prefix + the not-yet-consumed operands in place."""
    ds1 = L.field(S1, "State", "data_stack")
    if ds1.prefix is None or ds1.prefix[0] != pre.ds.prefix[0]:
        return z3.BoolVal(False)
    if L.result_kind(o)[0] == "Ok":
        if not ds1.items:
            return z3.BoolVal(False)
        return veq(L.ex, ds1, Vec(ds1.elem_ty, pre.ds.prefix, [ds1.items[-1]]))
    alts = []
    for k in range(len(pre.ds.items) + 1):
        alts.append(veq(L.ex, ds1, Vec(ds1.elem_ty, pre.ds.prefix, list(pre.ds.items[:k]))))
    return z3.Or(*alts)


def binary_lemma(word, fname):
    iops, rops = int_ops(), real_ops()

    def body(L):
        a, b = L.cell("a"), L.cell("b")
        pre = Pre(L, stack=[a, b])
        pc = pre.pc + [untagged(L, a), untagged(L, b)]
        outs = L.run(fname, [pre.xs], pc, pre.roots())
        ai, bi = int_payload("a"), int_payload("b")
        ar, br = real_payload("a"), real_payload("b")
        L.witness(outs, lambda o: o.kind == "return" and o.value.variant == "Ok", word + " succeeds on some operands")
        for o in outs:
            if o.kind != "return":
                L.fail(o, "%s never panics (%s)" % (word, (o.msg or "")[:80]), cex=scenario(word, ["a", "b"], NO_PANIC))
                continue
            S1 = final_state(L, o)
            va, vb = variant_on_path(L, o, a), variant_on_path(L, o, b)
            kind = L.result_kind(o)
            if kind[0] == "Err" and kind[1] == "StackUnderflow":
                L.require(o, z3.ULT(pre.visible_depth(), z3.BitVecVal(2, 64)), word + ": StackUnderflow only with fewer than 2 visible operands")
                continue
            if kind[0] == "Err" and kind[1] == "ErrorMsg":
                # stack-limit error from push_data (limit configured and reached): C14's subject
                L.require(o, L.is_variant(L.field(pre.S, "State", "stack_limit"), "Some"), word + ": ErrorMsg only from a configured stack limit")
                continue
            if vb is None or va is None:
                # the word decided without looking at one operand: only legal for errors about the other
                L.require(o, type_error_ok(L, o, pre, [a, b]), word + ": outcome without inspecting both operands is a type error on an operand")
                continue
            L.require(o, stack_below_untouched(L, o, pre, S1, 1), word + ": stack below the operands untouched")
            if va == "Int" and vb == "Int":
                check_spec(L, o, word, iops[word](ai, bi), S1, pre, 2, "(int,int)")
            elif va == "Real" and vb == "Real" and word not in INT_ONLY:
                check_spec(L, o, word, rops[word](ar, br), S1, pre, 2, "(real,real)")
            else:
                L.require(o, type_error_ok(L, o, pre, [a, b]), "%s: (%s,%s) operands give a type error reporting an actual operand" % (word, va, vb),
                          cex=scenario(word, ["a", "b"], TYPE_ERR))
    return body


def unary_lemma(word, fname):
    iops, rops = unary_int(), unary_real()

    def body(L):
        a = L.cell("a")
        pre = Pre(L, stack=[a])
        pc = pre.pc + [untagged(L, a)]
        outs = L.run(fname, [pre.xs], pc, pre.roots())
        ai, ar = int_payload("a"), real_payload("a")
        L.witness(outs, lambda o: o.kind == "return" and o.value.variant == "Ok", word + " succeeds on some operand")
        for o in outs:
            if o.kind != "return":
                L.fail(o, "%s never panics (%s)" % (word, (o.msg or "")[:80]), cex=scenario(word, ["a"], NO_PANIC))
                continue
            S1 = final_state(L, o)
            va = variant_on_path(L, o, a)
            kind = L.result_kind(o)
            if kind[0] == "Err" and kind[1] == "StackUnderflow":
                L.require(o, z3.ULT(pre.visible_depth(), z3.BitVecVal(1, 64)), word + ": StackUnderflow only with no visible operand",
                          cex=scenario(word, ["a"], lambda m: [("no_panic",), ("last_result_in", ["ok", "err TypeErrorMsg", "err IntegerOverflow", "err DivisionByZero"])]))
                continue
            if kind[0] == "Err" and kind[1] == "ErrorMsg":
                L.require(o, L.is_variant(L.field(pre.S, "State", "stack_limit"), "Some"), word + ": ErrorMsg only from a configured stack limit")
                continue
            if va is None:
                L.require(o, False, word + ": decided without inspecting its operand")
                continue
            L.require(o, stack_below_untouched(L, o, pre, S1, 1), word + ": stack below the operand untouched")
            if va == "Int" and word in iops and word not in REAL_ONLY:
                check_spec(L, o, word, iops[word](ai), S1, pre, 1, "(int)")
            elif va == "Real" and word in rops and word not in INT_ONLY:
                check_spec(L, o, word, rops[word](ar), S1, pre, 1, "(real)")
            else:
                L.require(o, type_error_ok(L, o, pre, [a]), "%s: a %s operand gives a type error reporting that operand" % (word, va),
                          cex=scenario(word, ["a"], TYPE_ERR))
    return body


# ------------------------------------------------------------------ translator self-test
I128_MIN, I128_MAX = -(1 << 127), (1 << 127) - 1
ST_INTS = [(7, 3), (-7, 3), (7, -3), (I128_MIN, -1), (5, 0), (1 << 100, 1 << 30), (3, 200), (-1, 127), (I128_MAX, 1), (0, 0), (12345678901234567890, -987654321)]
ST_REALS = [(1.5, 2.25), (-0.0, 0.0), (2.5, -3.5), (1e300, 1e300), (0.1, 0.2), (-7.75, 2.0), (float("inf"), 1.0), (3.5, 0.0)]


def pin_cell(name, v):
    """constraints that make the symbolic cell `name` the concrete int / float v, and its push line"""
    import struct
    d = z3.BitVec(name + ".discr", 64)
    if isinstance(v, int):
        return [d == CELL_VARIANTS.index("Int"), int_payload(name) == z3.BitVecVal(v, 128)], "push int %d" % v
    bits = struct.unpack("<Q", struct.pack("<d", v))[0]
    return [d == CELL_VARIANTS.index("Real"), z3.fpToIEEEBV(real_payload(name)) == z3.BitVecVal(bits, 64), real_payload(name) == z3.fpBVToFP(z3.BitVecVal(bits, 64), z3.Float64())], "push real_bits 0x%016x" % bits


def describe_outcome(L, o):
    if o.kind != "return":
        return "panic"
    if o.value.variant == "Err":
        return "err " + (L.result_kind(o)[1] or "?")
    S1 = final_state(L, o)
    ds1 = L.field(S1, "State", "data_stack")
    top = ds1.items[-1] if ds1.items else None
    tv = variant_on_path(L, o, top) if top is not None else None
    s_ = z3.Solver()
    s_.add(*o.st.pc)
    s_.check()
    m = s_.model()
    if tv == "Int":
        v = z3.simplify(m.eval(L.payload(top, 0, "i128").t, model_completion=True))
        if not z3.is_bv_value(v):
            return "ok int ?"
        v = v.as_long()
        return "ok int %d" % (v - (1 << 128) if v >> 127 else v)
    if tv == "Real":
        if z3.is_true(m.eval(z3.fpIsNaN(L.payload(top, 0, "f64").t), model_completion=True)):
            return "ok real NaN"
        fb = z3.simplify(m.eval(z3.fpToIEEEBV(L.payload(top, 0, "f64").t), model_completion=True))
        if not z3.is_bv_value(fb):
            return "ok real ?"          # value the model leaves unspecified (fp.min / fp.max of zeros of both signs)
        return "ok real 0x%016x" % fb.as_long()
    if tv == "Flag":
        return "ok flag %s" % ("true" if z3.is_true(m.eval(L.payload(top, 0, "bool").t, model_completion=True)) else "false")
    return "ok %s" % tv


def selftest_word(word, fn, arity):
    """mirsym's answer for concrete operands (pinned by constraints) vs the real interpreter's, word by word"""
    def body(L):
        from e2.driver import build_replayer, run_scenario, observe
        from e2.lemma import Obligation
        ok, msg = build_replayer()
        if not ok:
            raise Unsupported("replayer build failed: " + msg)
        samples = []
        for ia, ib in ST_INTS:
            samples.append((ia, ib))
        for ra, rb in ST_REALS:
            samples.append((ra, rb))
        samples += [(3, 1.5), (2.5, 4)]
        agree = tot = 0
        for sa, sb in samples[:(len(samples) if arity == 2 else 12)]:
            names = ["a", "b"][:arity]
            vals = [sa, sb][:arity] if arity == 2 else [sa]
            cells = [L.cell(nm) for nm in names]
            pre = Pre(L, stack=cells)
            # an unlimited, plain state: what `eval` gives on a fresh interpreter
            L.field(pre.S, "State", "stack_limit").variant = "None"
            pc = list(pre.pc) + [z3.ULE(pre.ds_len.t, pre.n0)]          # both operands visible
            lines = []
            for nm, v in zip(names, vals):
                cs, ln = pin_cell(nm, v)
                pc += cs
                lines.append(ln)
            args = [pre.xs] if "{closure#" not in fn.name else [FnVal("env:" + word), pre.xs]
            outs = [o for o in L.run(fn, args, pc, pre.roots()) if L.feasible(o)]
            rc, out = run_scenario(lines + ["eval " + word, "stack"], False)
            obs = observe(out)
            native_res = obs["results"][-1] if obs["results"] else "?"
            tot += 1
            answers = set()
            for o in outs:
                answers.add(describe_outcome(L, o))
            if len(answers) != 1:
                L.undecided.append((L.cur, "TRANSLATOR MISMATCH %s %r: mirsym is not deterministic on concrete operands: %s" % (word, vals, sorted(answers))))
                continue
            mine = answers.pop()
            if native_res.startswith("ok"):
                c0 = obs["cells"][0] if obs["cells"] else ("?", "?", "?")
                nat = "ok %s %s" % (c0[0], c0[1])
                if c0[0] == "real" and (int(c0[1], 16) >> 52) & 0x7ff == 0x7ff and int(c0[1], 16) & ((1 << 52) - 1):
                    nat = "ok real NaN"
            elif native_res.startswith("err"):
                nat = "err " + native_res.split(" ")[1]
            else:
                nat = native_res.split(" ")[0]
            if mine.endswith("?") and nat.startswith(mine[:-1]):
                continue                 # unspecified by the SMT-LIB semantics: neither agreement nor mismatch
            if nat != mine:
                L.undecided.append((L.cur, "TRANSLATOR MISMATCH %s %r: native %s vs mirsym %s" % (word, vals, nat, mine)))
            else:
                agree += 1
        L.selftest_traces = getattr(L, "selftest_traces", 0) + agree
        L.obligations.append(Obligation(L.cur, "translator self-test %s: %d of %d concrete operand samples agree with the real interpreter" % (word, agree, tot), "holds"))
    return body


def run(L, tier, only=None):
    wm = word_map(L.ex, "arith::load")
    st_words = ["+", "/", "rem", "<", "bsl", "round", "abs", ">int"] if tier == "quick" else BINARY + UNARY
    for w in st_words:
        if w in wm and (not only or "selftest" in only):
            L.lemma("C09 translator self-test %s" % w, selftest_word(w, L.fn(wm[w][0]), 2 if w in BINARY else 1))
    for w in BINARY + UNARY:
        if only and w not in only:
            continue
        if w not in wm:
            L.undecided.append(("C09:" + w, "word not registered by arith::load any more"))
            continue
        target = wm[w][0]
        fn = L.fn(target)
        body = (binary_lemma if w in BINARY else unary_lemma)(w, fn)
        if "{closure#" in fn.name:
            body = closure_wrapper(fn, body, w)
        L.lemma("C09 %s" % w, body)


def closure_wrapper(fn, body, w):
    # binary_lemma/unary_lemma call L.run(fname, [xs]) ; a closure needs the env argument first
    def wrapped(L):
        orig = L.run

        def run2(fname, args, pc=None, roots=None):
            return orig(fname, [FnVal("env:" + w)] + list(args), pc, roots)
        L.run = run2
        try:
            body(L)
        finally:
            L.run = orig
    return wrapped
