"""C08: per-word panic freedom. Every native word whose MIR the executor can run is started from
an arbitrary interpreter state whose top three stack cells are arbitrary cells (any variant incl.
tagged, full-width payloads); any reachable panic / failed assert / unreachable is a violation.
Words the executor cannot run are listed as not covered (sound by refusal)."""
import re
import z3
from e2.values import *
from e2.lemma import word_map, word_call
from e2.prestate import *
from e2.scen import *

LOADERS = ["load_core", "arith::load", "bitstr_ext::load", "istype::load", "base_ext::load"]

# words that are outside the scope by the property's own provisos or by nature (I/O, randomness, allocation size)
SKIP = {
    "random": "non-deterministic / getrandom FFI", "random-bits": "getrandom FFI + allocation of the requested size",
    "read-all": "file I/O", "write-all": "file I/O", "exec-piped": "process I/O", "include": "file I/O", "require": "file I/O",
    "exit": "terminates by design (returns Err(Exit))",
}


# the every-change subset: words with index / size / shift / offset arithmetic that are decided within the quick path
# budget of 1000 paths (the other candidates - nth slice get insert bits bytes int uint u8 float open-bitstr emit ... - need
# more and are decided, or listed as not covered, by the thorough tier, which runs every word of every loader)
QUICK_WORDS = ["nth", "emit", "push", "remove", "length", "I", "J", "K", "/", "rem", "*", "bsl", "bsr", "abs", "neg", "round", ">int", "seek", ">b", "i16le", "bitstr-append"]


# words whose failure depends on interpreter variables rather than on the operands: a fixed native scenario
WORD_SCEN = {
    "emit": ["intercept on", "eval 18446744073709551615 ! output-length", "eval |ff| emit"],
}


def cell_lines(m, names):
    return [cell_push_line(m, n) for n in names]


def word_lemma(word, target, immediate, arity=3, visible_loops=0):
    def body(L):
        cells = [L.cell(n) for n in ["c", "b", "a"][3 - arity:]]      # a on top
        pre = Pre(L, stack=cells)
        if visible_loops:
            pre.vec("loops").items = [L.sym("state::Loop", "loop%d" % i) for i in range(visible_loops)]
        fn, args = word_call(L, target, pre.xs)
        outs = L.run(fn, args, pre.pc, pre.roots())
        names = ["c", "b", "a"][3 - arity:]
        n_ok = 0
        for o in outs:
            if o.kind == "return":
                n_ok += 1
                continue

            def cex(m, o=o):
                if visible_loops:
                    src = "3 0 do " * visible_loops + word + " drop " + "loop " * visible_loops
                    return {"lines": ["eval " + src], "expect": [("no_panic",)]}
                if word in WORD_SCEN:
                    return {"lines": WORD_SCEN[word], "expect": [("no_panic",)]}
                return {"lines": cell_lines(m, names) + ["eval " + word], "expect": [("no_panic",)]}
            L.fail(o, "`%s` must not panic: %s @ %s" % (word, (o.msg or "")[:100], (o.where or "")[:80]), cex=cex)
        L.witness(outs, lambda o: o.kind == "return", "`%s` returns on some path" % word)
    return body


def arm_lemma(opcode):
    """one step of the real VM on any state whose current instruction is `opcode`: no panic"""
    def body(L):
        from e2.lemmas.vm import VmPre
        pre = VmPre(L, opcode=opcode)
        outs = L.run("fetch_and_run", [pre.xs], pre.pc, pre.roots())
        L.witness(outs, lambda o: o.kind == "return", "the %s arm returns" % opcode)
        scen = {"LoadLocal": ["eval : f false if 1 local x then x ; f"], "InitLocal": ["eval : f 1 local x x ; f"], "Load": ["eval var v v"],
                "CaseOf": ["eval 1 case 2 of 3 endof endcase"], "Loop": ["eval 3 0 do loop"], "Ret": ["eval : f ; f"]}.get(opcode)
        for o in outs:
            if o.kind != "return":
                L.fail(o, "the %s instruction must not panic: %s" % (opcode, (o.msg or "")[:100]),
                       cex=(lambda m: {"lines": scen, "expect": [("no_panic",)]}) if scen else None)
    return body


BASELINE_FILE = __import__("os").path.join(__import__("os").path.dirname(__file__), "c08_baseline.json")


def load_baseline(tier):
    """lemma names decided on the reference tree (committed): a refusal on one of them is a coverage regression and
    makes the check inconclusive instead of quietly shrinking the claim"""
    import json, os
    if os.environ.get("VERIF_C08_NO_BASELINE") or not os.path.exists(BASELINE_FILE):
        return set()
    return set(json.load(open(BASELINE_FILE)).get(tier, []))


def run(L, tier, only=None):
    from e2.lemmas.vm import OPCODES
    base = load_baseline(tier)
    for op in OPCODES:
        if op != "Resolve" and (not only or op in only or "arms" in only):
            L.lemma("C08 VM arm " + op, arm_lemma(op))
    covered, not_covered = [], []
    # the refusal that bounds a quick lemma is the path budget (deterministic), not the clock
    L.ex.path_budget = 1000 if tier == "quick" else 8000
    L.lemma_time_budget = 120 if tier == "quick" else 100
    times = {}

    def one(name, w, fn):
        import time as _t
        n_und = len(L.undecided)
        n_ob = len(L.obligations)
        t0 = _t.time()
        L.lemma(name, fn)
        times[name] = round(_t.time() - t0, 1)
        if len(L.obligations) == n_ob and len(L.undecided) == n_und:
            return                      # not this worker's lemma / time box
        if len(L.undecided) > n_und:
            if name in base:
                for k_ in range(n_und, len(L.undecided)):
                    lem, why = L.undecided[k_]
                    L.undecided[k_] = (lem, "COVERAGE REGRESSION (decided on the reference tree, refused now): " + why)
                return
            # refusals of lemmas that were never decided are "not covered", not failures of the check
            for (lem, why) in L.undecided[n_und:]:
                not_covered.append((name[4:], why.split("\n")[0][:200]))
            del L.undecided[n_und:]
        else:
            covered.append(name[4:])
    for loader in LOADERS:
        try:
            wm = word_map(L.ex, loader)
        except Exception as e:
            L.undecided.append(("C08 loader " + loader, str(e)))
            continue
        for w, (target, imm) in wm.items():
            if only and w not in only:
                continue
            if tier == "quick" and not only and w not in QUICK_WORDS:
                continue
            if w in SKIP:
                not_covered.append((w, SKIP[w]))
                continue
            if imm:
                not_covered.append((w, "immediate (compile-time) word: needs the lexer/compiler state, see C01/C10/C11 lemmas"))
                continue
            one("C08 " + w, w, word_lemma(w, target, imm))
            if w in ("I", "J", "K"):
                # inside loops: the cheap shapes (fewer visible loops than the word reaches over) every time,
                # the ones that go on to fetch the item only in the thorough tier
                for nl in ([1, 2] if tier != "quick" else {"I": [], "J": [1], "K": [1, 2]}[w]):
                    one("C08 %s inside %d loop(s)" % (w, nl), w, word_lemma(w, target, imm, visible_loops=nl))
    L.c08_covered = covered
    L.c08_not_covered = not_covered
    L.ex.path_budget = None
    L.samples.append({"engine": "e2", "words_covered": covered, "words_not_covered": [list(x) for x in not_covered][:200],
                      "seconds": {k[4:]: v for k, v in times.items() if k[4:] in covered}})
