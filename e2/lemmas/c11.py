"""C11 (and the sealing part of C10): meta-evaluation is sealed and its closing step is exact.

(1) sealed stacks: every accessor of the data / return / loop / vector-builder / pending-flow stacks, run on a
    state whose visible part (above the current context's marks) is empty, fails or returns nothing and leaves
    every stack unchanged - whatever lies below the marks (symbolic hidden content of any size).
(2) sealed variables: in MetaEval mode variable read, write and allocation are refused and the heap is untouched.
(3) closing a meta block (real context_close): code and debug map truncated to the block's start, every dictionary
    entry the block added that is not a constant is purged, older entries untouched, the values the block left
    are re-emitted as literals (last result first) exactly when the parent is not itself a meta context or is
    building a function, and the parent context is restored.
(4) compile mode executes nothing: context_close in Compile mode does not call run.
Equivalence to inlining for whole programs is the paper composition of these steps."""
import z3
from e2.values import *
from e2.prestate import *
from e2.symex import veq, veq_modtags
from e2.lemmas.vm import *

ALL_STACKS = ["data_stack", "return_stack", "loops", "special", "flow_stack", "heap", "ctx"]


def sealed_pre(L):
    """nothing visible: every mark equals the stack's length (explicit parts empty)"""
    pre = Pre(L, stack=[])
    pre.pc.append(pre.ds_len.t == pre.ds.len_term())
    return pre


def sealed_lemma(fname, mkargs, expect):
    """expect: 'err' | 'none' | 'false' | 'ok-unchanged'"""
    def body(L):
        pre = sealed_pre(L)
        outs = L.run(fname, mkargs(L, pre), pre.pc, pre.roots())
        L.witness(outs, lambda o: o.kind == "return", fname + " returns")
        for o in outs:
            if o.kind != "return":
                L.fail(o, "%s on an empty visible part must not panic: %s" % (fname, (o.msg or "")[:80]))
                continue
            S1 = final_state(L, o)
            v = o.value
            cex = lambda m: {"lines": ["eval 1 2", "eval 1 if", "eval 8 then", "stack"], "expect": [("no_panic",), ("last_result_in", ["err"])]} if fname == "take_first_cond_flow" else None
            if expect == "err":
                L.require(o, z3.BoolVal(isinstance(v, Enum) and v.variant == "Err"), "%s: nothing visible => error" % fname)
            elif expect == "none":
                L.require(o, z3.BoolVal(isinstance(v, Enum) and v.variant == "None"), "%s: nothing visible => None (hidden entries are never returned)" % fname,
                          cex=(lambda m: {"lines": ["eval 1 if", "eval 8 then"], "expect": [("no_panic",), ("last_result_in", ["err"])]}) if fname in ("take_first_cond_flow", "pop_flow") else
                          (lambda m: {"lines": ["eval : f local depth foo", "eval depth", "stack"], "expect": [("no_panic",), ("last_result_in", ["ok"])]}) if fname == "top_function_flow" else None)
            elif expect == "false":
                L.require(o, z3.Not(v.t), "%s: nothing visible => false" % fname)
            for f in ALL_STACKS:
                L.require(o, veq(L.ex, L.field(S1, "State", f), L.field(pre.S, "State", f)), "%s: hidden part of %s untouched" % (fname, f))
    return body


def partial_sealed_lemma(fname, nvis):
    """an accessor that needs more cells than are visible (nvis of them) must fail and must not reach below the mark"""
    def body(L):
        pre = Pre(L, stack=[L.cell("v%d" % i) for i in range(nvis)])
        pre.pc.append(pre.ds_len.t == pre.n0)            # exactly nvis visible cells, anything below is hidden
        outs = L.run(fname, [pre.xs], pre.pc, pre.roots())
        L.witness(outs, lambda o: o.kind == "return", fname + " returns")
        cex = lambda m: {"lines": ["eval 7", "eval #( 2 %s #)" % fname.replace("_data", ""), "stack"], "expect": [("no_panic",), ("last_result_in", ["err"])]} if nvis == 1 and fname in ("over_data", "swap_data") else None
        for o in outs:
            if o.kind != "return":
                L.fail(o, "%s with %d visible cell(s) must not panic: %s" % (fname, nvis, (o.msg or "")[:80]))
                continue
            S1 = final_state(L, o)
            L.require(o, z3.BoolVal(o.value.variant == "Err"), "%s: only %d cell(s) visible => error (cells below the context's base are never used)" % (fname, nvis), cex=cex)
            for f in ALL_STACKS:
                L.require(o, veq(L.ex, L.field(S1, "State", f), L.field(pre.S, "State", f)), "%s with %d visible cell(s): %s untouched" % (fname, nvis, f), cex=cex)
    return body


PARTIAL = [("swap_data", 1), ("over_data", 1), ("rot_data", 1), ("rot_data", 2)]

SEALED = [
    ("pop_data", lambda L, p: [p.xs], "err"), ("top_data", lambda L, p: [p.xs], "err"), ("drop_data", lambda L, p: [p.xs], "err"),
    ("dup_data", lambda L, p: [p.xs], "err"), ("swap_data", lambda L, p: [p.xs], "err"), ("rot_data", lambda L, p: [p.xs], "err"),
    ("over_data", lambda L, p: [p.xs], "err"), ("pop_return", lambda L, p: [p.xs], "err"), ("top_frame", lambda L, p: [p.xs], "err"),
    ("pop_loop", lambda L, p: [p.xs], "err"), ("loop_next", lambda L, p: [p.xs], "err"), ("pop_special", lambda L, p: [p.xs], "none"),
    ("pop_flow", lambda L, p: [p.xs], "none"), ("take_first_cond_flow", lambda L, p: [p.xs], "none"), ("top_function_flow", lambda L, p: [p.xs], "none"),
    ("has_pending_flow", lambda L, p: [p.xs], "false"),
    ("counter_value", lambda L, p: [p.xs, Int(z3.BitVecVal(0, 64), 64, False)], "err"),
]


def meta_vars_lemma(L):
    for fname, mk in (("cell_ref", lambda p: [p.xs, L.sym("cell::CellRef", "cr")]),
                      ("swap_cell_ref", lambda p: [p.xs, L.sym("cell::CellRef", "cr"), L.cell("v")]),
                      ("alloc_heap", lambda p: [p.xs, L.cell("v")])):
        pre = Pre(L, stack=[])
        mode = L.field(pre.ctx, "Context", "mode")
        mode.variant = "MetaEval"
        outs = L.run(fname, mk(pre), pre.pc, pre.roots())
        L.witness(outs, lambda o: o.kind == "return", fname + " returns")
        for o in outs:
            if o.kind != "return":
                L.fail(o, fname + " in meta mode must not panic")
                continue
            S1 = final_state(L, o)
            L.require(o, z3.BoolVal(o.value.variant == "Err"), "%s is refused in meta mode" % fname)
            L.require(o, veq(L.ex, L.field(S1, "State", "heap"), pre.heap), "%s in meta mode leaves the heap untouched" % fname)


def mk_ctx(L, name, **fields):
    c = L.sym("state::Context", name)
    return c


def close_meta_lemma(parent_mode, building_fun, nvals, new_entries):
    """new_entries: list of 'C' (constant) / 'F' (function) / 'V' (variable) added by the block, in order"""
    def body(L):
        pre = Pre(L, stack=[L.cell("r%d" % i) for i in range(nvals)])
        ex = L.ex
        mode = L.field(pre.ctx, "Context", "mode")
        mode.variant = "MetaEval"
        # nothing left to run: ip at the end of the code
        code = pre.vec("code")
        dm = pre.vec("debug_map")
        k_code = 2                                   # the block compiled two instructions
        code.items = [L.sym("opcodes::Opcode", "blk%d" % i) for i in range(k_code)]
        dm.items = [L.sym("arcstr::Substr", "tok%d" % i) for i in range(k_code)]
        pre.pc.append(dm.prefix[1] == code.prefix[1])
        pre.pc.append(pre.ip.t == code.len_term())
        cs_len = L.field(pre.ctx, "Context", "cs_len")
        pre.pc.append(cs_len.t == code.prefix[1])
        pre.pc.append(z3.ULT(code.len_term(), z3.BitVecVal((1 << 31) - 8, 64)))
        # results sit exactly above the block's stack base
        pre.pc.append(pre.ds_len.t == pre.n0)
        # dictionary: hidden older entries (untouched) + the block's entries
        dic = pre.vec("dict")
        di_len = L.field(pre.ctx, "Context", "di_len")
        pre.pc.append(di_len.t == dic.prefix[1])
        ents = []
        for i, kind in enumerate(new_entries):
            e = L.sym("state::DictEntry", "ent%d" % i)
            en = L.field(e, "DictEntry", "entry", "state::Entry")
            en.variant = {"C": "Constant", "F": "Function", "V": "Variable"}[kind]
            ents.append(e)
        dic.items = ents
        # parent context on the nesting stack
        nested = pre.vec("nested")
        parent = L.sym("state::Context", "parent")
        pm = L.field(parent, "Context", "mode")
        pm.variant = parent_mode
        nested.items = [parent]
        # flow stack: what the parent had pending; the block itself has nothing pending
        fs = pre.vec("flow_stack")
        pfs = L.field(parent, "Context", "fs_len")
        if building_fun:
            ff = L.sym("state::FunctionFlow", "ff")
            fs.items = [Enum("state::Flow", "Fun", Struct("state::Flow::Fun", {0: ff}))]
            pre.pc.append(pfs.t == fs.prefix[1])
        else:
            pre.pc.append(pfs.t == fs.prefix[1])
        # the block's own flow mark is the top of the flow stack (has_pending_flow is false)
        pre.pc = [c for c in pre.pc if "xs.*.11.3" not in str(c) or True]
        my_fs = L.field(pre.ctx, "Context", "fs_len")
        pre.pc = [c for c in pre.pc if not (str(c).find("xs.*.11.3 ==") >= 0)]
        pre.pc.append(my_fs.t == fs.len_term())
        outs = L.run("context_close", [pre.xs], pre.pc, pre.roots())
        L.witness(outs, lambda o: o.kind == "return" and o.value.variant == "Ok", "context_close succeeds")
        emit_expected = (parent_mode != "MetaEval") or building_fun
        cexs = {
            "purge": lambda m: {"lines": ["eval #( : a 1 ; : b 2 ; a b + #)", "eval b"], "expect": [("no_panic",), ("last_result_in", ["err UnknownWord"])]},
            "inline": lambda m: {"lines": ["eval #( : f #( 3 #) ; f f + #)", "stack"], "expect": [("no_panic",), ("last_result_in", ["ok"]), ("top_in", [("int", "6")])]},
        }
        for o in outs:
            if o.kind != "return":
                L.fail(o, "context_close must not panic: %s" % (o.msg or "")[:80])
                continue
            if o.value.variant != "Ok":
                kind = L.result_kind(o)
                L.require(o, z3.BoolVal(kind[1] == "ErrorMsg"), "closing a finished meta block fails only on a resource limit")
                continue
            S1 = final_state(L, o)
            code1, dm1, dic1, ds1 = (L.field(S1, "State", f) for f in ("code", "debug_map", "dict", "data_stack"))
            # (a) code and debug map: block code gone; results re-emitted (or not)
            n_emit = nvals if emit_expected else 0
            L.require(o, z3.BoolVal(code1.prefix == code.prefix and len(code1.items) == n_emit and len(dm1.items) == n_emit and dm1.prefix == dm.prefix),
                      "meta close: block code purged from code and debug map; %d literal(s) emitted for the results (parent %s%s)" % (
                          n_emit, parent_mode, ", building a function" if building_fun else ""), cex=cexs["inline"])
            if emit_expected and len(code1.items) == nvals:
                for j in range(nvals):
                    src = pre.ds.items[nvals - 1 - j]          # pop order: last result first
                    L.require(o, literal_of(L, o, code1.items[j], src), "meta close: literal %d is the %s result" % (j, "last" if j == 0 else "previous"))
                L.require(o, veq(L.ex, ds1, Vec(ds1.elem_ty, pre.ds.prefix, [])), "meta close: the block's results are taken off the data stack")
            elif not emit_expected:
                L.require(o, veq(L.ex, ds1, pre.ds), "meta close inside a meta parent: results stay on the (meta) stack")
            # (b) dictionary purge
            keep = [e for e, kind in zip(ents, new_entries) if kind == "C"]
            ok_shape = dic1.prefix == dic.prefix and len(dic1.items) == len(keep)
            L.require(o, z3.BoolVal(ok_shape), "meta close: exactly the non-constant entries the block added are purged (%s -> keeps %d)" % ("".join(new_entries), len(keep)),
                      cex=cexs["purge"])
            if ok_shape:
                for e1 in dic1.items:
                    L.require(o, z3.BoolVal(L.field(e1, "DictEntry", "entry", "state::Entry").variant == "Constant"), "meta close: every surviving new entry is a constant")
            # (c) parent context restored
            L.require(o, veq(L.ex, L.field(S1, "State", "ctx"), parent), "meta close: the parent context becomes current again")
            n1 = L.field(S1, "State", "nested")
            L.require(o, veq(L.ex, n1, Vec(n1.elem_ty, nested.prefix, [])), "meta close: exactly one nesting level is popped")
    return body


def literal_of(L, o, opc, cell):
    """opc is the Load* literal for cell (as load_value_opcode chooses)"""
    if not isinstance(opc, Enum) or opc.variant is None:
        return z3.BoolVal(False)
    v = variant_on_path(L, o, cell)
    if opc.variant == "LoadNil":
        return z3.BoolVal(v == "Nil")
    if opc.variant == "LoadI64":
        iv = int_payload(cell.origin)
        return z3.And(z3.BoolVal(v == "Int"), z3.SignExt(64, L.payload(opc, 0, "i64").t) == iv)
    if opc.variant == "LoadStr":
        return z3.BoolVal(v == "Str")
    if opc.variant == "LoadCell":
        bx = L.payload(opc, 0, "std::rc::Rc<cell::Cell>")
        inner = L.deref(bx)
        return veq(L.ex, inner, cell)
    return z3.BoolVal(False)


def compile_close_lemma(L):
    """Compile mode: closing runs nothing (data stack, heap untouched, ip restored from the parent)."""
    pre = Pre(L, stack=[L.cell("a")])
    mode = L.field(pre.ctx, "Context", "mode")
    mode.variant = "Compile"
    nested = pre.vec("nested")
    parent = L.sym("state::Context", "parent")
    nested.items = [parent]
    called = []
    L.ex.overrides[r"State::run$|::run$"] = lambda ex_, st, fr, c, a: (_ for _ in ()).throw(Unsupported("run() called while closing a Compile context"))
    try:
        outs = L.run("context_close", [pre.xs], pre.pc, pre.roots())
    finally:
        L.ex.overrides.pop(r"State::run$|::run$", None)
    L.witness(outs, lambda o: o.kind == "return" and o.value.variant == "Ok", "closing a Compile context succeeds")
    for o in outs:
        if o.kind != "return":
            L.fail(o, "context_close(Compile) must not panic")
            continue
        S1 = final_state(L, o)
        for f in ("data_stack", "heap", "return_stack", "loops", "code"):
            L.require(o, veq(L.ex, L.field(S1, "State", f), L.field(pre.S, "State", f)), "closing a Compile context leaves %s untouched (nothing is executed)" % f)
        L.require(o, veq(L.ex, L.field(S1, "State", "ctx"), parent), "closing a Compile context restores the parent context")


def run(L, tier, only=None):
    L.ex.path_budget = 6000
    for fname, mk, exp in SEALED:
        if not only or fname in only or "sealed" in only:
            L.lemma("C11 sealed " + fname, sealed_lemma(fname, mk, exp))
    for fname, nvis in PARTIAL:
        if not only or fname in only or "sealed" in only:
            L.lemma("C11 sealed %s with %d visible" % (fname, nvis), partial_sealed_lemma(fname, nvis))
    if not only or "vars" in only:
        L.lemma("C11 sealed variables in meta mode", meta_vars_lemma)
    cases = [("Eval", False, 1, ["F"]), ("Eval", False, 2, ["F", "F"]), ("Compile", False, 1, ["C", "F", "V"]), ("MetaEval", False, 1, ["F"]),
             ("MetaEval", True, 1, []), ("Eval", False, 0, ["C", "C"])]
    if tier != "quick":
        cases += [("Eval", False, 2, ["F", "C", "F"]), ("MetaEval", True, 2, ["F", "F"]), ("Compile", True, 1, ["V", "F"])]
    for pm, bf, nv, ne in cases:
        nm = "C11 close meta block (parent %s%s, %d results, new entries %s)" % (pm, "+fun" if bf else "", nv, "".join(ne) or "-")
        if not only or "close" in only:
            L.lemma(nm, close_meta_lemma(pm, bf, nv, ne))
    if not only or "compile" in only:
        L.lemma("C11 compile executes nothing", compile_close_lemma)
    L.ex.path_budget = None
