"""C03 (snapshot half): State::clone copies every component of the interpreter.

The real `<State as Clone>::clone` (derived or hand-written - whatever the tree has) is run on an arbitrary state;
the copy must equal the original field by field: dictionary, heap, code, debug map, sources, pending inputs, all
stacks, contexts, limits and meter, the reverse log (so a snapshot can be stepped back as far as the original),
captured stdout, last error / token, binary-parsing variables.  Independence of the two copies afterwards is what
value semantics give: every container is a Vec / rpds structure / Rc of immutable data, the only buffers mutated
in place are bit-string buffers behind Rc<Cow<[u8]>>, and those are decided by the E1 family of this property."""
import z3
from e2.values import *
from e2.prestate import *
from e2.symex import veq


def clone_lemma(recording):
    def body(L):
        pre = Pre(L, stack=[L.cell("a")], recording=recording)
        fns = [f for n, f in L.ex.funcs.items() if n.endswith("::clone") and f.params and strip_ty(f.params[0][1]) == "&state::State" and "src/state.rs" in n]
        if len(fns) != 1:
            raise Unsupported("State::clone: %d candidates" % len(fns))
        outs = L.run(fns[0], [pre.xs], pre.pc, pre.roots())
        L.witness(outs, lambda o: o.kind == "return", "State::clone returns")
        order = [f for f, _ in L.ex.defs.structs["State"]]
        cex = lambda m: {"lines": ["recording on", "compile 1 2 3", "next 3", "clone", "rnext 2", "stack", "swap", "rnext 2", "stack"],
                         "expect": [("no_panic",), ("stacks_equal", [0, 1])]}
        # any other component: a snapshot taken in the middle of a word with a local, inside a counted loop, with a
        # variable and a vector around; both copies are then run to the end and must end in the same state
        gen = lambda m: {"lines": ["recording on", "eval 5 var v [ 1 2 ]", "compile : f 10 local x 3 0 do I x + loop ; f v", "next 12", "clone",
                                   "run", "dump", "swap", "run", "dump"],
                         "expect": [("no_panic",), ("results_same_kind", [2, 3]), ("dumps_equal", [0, 1])]}
        for o in outs:
            if o.kind != "return":
                L.fail(o, "State::clone must not panic")
                continue
            S0 = final_state(L, o)
            C = o.value
            if not isinstance(C, Struct):
                raise Unsupported("clone result %r" % (C,))
            for i, f in enumerate(order):
                a = L.ex.step_get(None, S0, ("f", i, L.ex.defs.structs["State"][i][1])) if i not in S0.fields else S0.fields[i]
                if i not in C.fields:
                    L.require(o, False, "the snapshot has a `%s` component" % f, cex=cex if f == "reverse_log" else gen)
                    continue
                L.require(o, veq(L.ex, C.fields[i], a), "the snapshot's `%s` equals the original's" % f, cex=cex if f == "reverse_log" else gen)
            L.require(o, veq(L.ex, S0, pre.S), "cloning leaves the original unchanged")
    return body


def run(L, tier, only=None):
    for rec in (True, False):
        if not only or "clone" in only:
            L.lemma("C03 State::clone copies every component (recording %s)" % ("on" if rec else "off"), clone_lemma(rec))
