"""C06: the parsing cursor. Each cursor word runs as real MIR (peek_bits, move_offset_checked,
read_bits, Bitstr::substr/seek/..., cell accessors) from an arbitrary interpreter state satisfying the
cursor invariant I_p: `input` holds a bit-string, `offset` an integer with start <= offset <= end,
`stash` a vector. Which *number* a field decodes to is C05's subject: the decoders are uninterpreted."""
import z3
from e2.values import *
from e2.lemma import word_map, word_call
from e2.prestate import *
from e2.symex import veq
from e2.scen import *

U64 = lambda v: z3.BitVecVal(v, 64)


class CursorPre(Pre):
    def __init__(self, L, stack, tagged_input=False):
        super().__init__(L, stack=stack)
        self.setup_cursor(L)

    def setup_cursor(self, L):
        ex = L.ex
        self.inp = L.sym("bitstr::Bitstr", "inp")
        rng = L.field(self.inp, "Bitstr", "range")
        self.i_start = ex.step_get(None, rng, ("f", 0, "usize"))
        self.i_end = ex.step_get(None, rng, ("f", 1, "usize"))
        self.off = z3.BitVec("off", 128)
        self.input_cell = Enum("cell::Cell", "Bitstr", Struct("cell::Cell::Bitstr", {0: self.inp}))
        self.offset_cell = Enum("cell::Cell", "Int", Struct("cell::Cell::Int", {0: Int(self.off, 128, True)}))
        self.stash_vec = L.sym("rpds::Vector<cell::Cell>", "stash")
        self.stash_cell = Enum("cell::Cell", "Vector", Struct("cell::Cell::Vector", {0: self.stash_vec}))
        self.set_slot("input", self.input_cell)
        self.set_slot("offset", self.offset_cell)
        self.set_slot("stash", self.stash_cell)
        # big_endian / output / output_len: any cell (lazily symbolic); all six refs point inside the heap
        for nm, t in self.cellrefs.items():
            self.pc.append(z3.ULT(t, self.heap.len_term()))
        # I_p
        self.pc += [self.off >= 0, z3.ULE(self.i_start.t, z3.Extract(63, 0, self.off)), z3.ULE(z3.Extract(63, 0, self.off), self.i_end.t),
                    self.off < z3.BitVecVal(1 << 62, 128),
                    z3.ULE(self.stash_vec.prefix[1], U64(1 << 40))]
        # evaluation mode: variables are not accessible in meta mode (C11's subject) -> Eval or Compile
        mode = L.field(self.ctx, "Context", "mode")
        self.pc.append(mode.discr != z3.BitVecVal(ex.enum_index("ContextMode", "MetaEval"), 64))

    def set_slot(self, name, val):
        t = self.cellrefs[name]
        self.heap.slots[str(z3.simplify(t))] = [t, val]

    def slot(self, S1, name):
        h = self.L.field(S1, "State", "heap")
        key = str(z3.simplify(self.cellrefs[name]))
        if key not in h.slots:
            return mk_sym(self.L.ex.tc, "cell::Cell", "%s@%s" % (h.prefix[0], key))
        return h.slots[key][1]


def install_overrides(ex):
    """kept for callers: the Bitstr summaries are standing overrides installed by e2.session"""
    from e2.bitstr_model import install
    install(ex)


def bitstr_of(L, cell):
    """Bitstr struct inside a Cell::Bitstr (possibly tagged)"""
    if cell.variant == "WithTag":
        rc = L.payload(cell, 0, "std::rc::Rc<cell::WithTag>")
        wt = L.deref(rc)
        inner = L.field(wt, "WithTag", "value", "cell::Cell")
        return bitstr_of(L, inner)
    if cell.variant != "Bitstr":
        return None
    return L.payload(cell, 0, "bitstr::Bitstr")


def rng_of(L, bs):
    rng = L.field(bs, "Bitstr", "range")
    return L.ex.step_get(None, rng, ("f", 0, "usize")).t, L.ex.step_get(None, rng, ("f", 1, "usize")).t


def cursor_unchanged(L, pre, S1):
    return z3.And(veq(L.ex, pre.slot(S1, "input"), pre.input_cell), veq(L.ex, pre.slot(S1, "offset"), pre.offset_cell),
                  veq(L.ex, pre.slot(S1, "stash"), pre.stash_cell))


def invariant_after(L, pre, S1):
    """I_p again: offset is an int inside the input"""
    oc, ic = pre.slot(S1, "offset"), pre.slot(S1, "input")
    if not (isinstance(oc, Enum) and oc.variant == "Int" and isinstance(ic, Enum) and ic.variant == "Bitstr"):
        return z3.BoolVal(False)
    o = L.payload(oc, 0, "i128").t
    s, e = rng_of(L, L.payload(ic, 0, "bitstr::Bitstr"))
    return z3.And(o >= 0, z3.ULE(s, z3.Extract(63, 0, o)), z3.ULE(z3.Extract(63, 0, o), e), o < z3.BitVecVal(1 << 64, 128))


def stack_is(L, pre, S1, items):
    ds1 = L.field(S1, "State", "data_stack")
    return veq(L.ex, ds1, Vec(ds1.elem_ty, pre.ds.prefix, list(items)))


def scen_read(word, n_name=None, req=None, limit_stack=False):
    """Replay template: a 4-byte input, seek to the model's offset (clamped), push the model's argument, run the
    word; the cursor (offset, remain) is observed before and after."""
    def build(m):
        off = signed(sval(m, z3.BitVec("off", 128)), 128)
        s0 = sval(m, z3.BitVec("inp.0.0", 64))
        e0 = sval(m, z3.BitVec("inp.0.1", 64))
        # an input as long as the model's (up to 32 bytes), so that a read the model lets succeed or fail for another
        # reason than missing data does the same natively
        total = max(32, min(256, e0 - s0))
        nbytes = (total + 7) // 8
        # keep the number of bits left after the seek as in the model (that is what decides the read), capped by the input
        rem = max(0, e0 - off)
        rel = nbytes * 8 - min(rem, nbytes * 8)
        lines = ["input " + "".join("%02x" % ((0x0a + 0x11 * i) & 0xff) for i in range(nbytes)), "eval %d seek" % rel, "eval offset remain", "stack", "eval drop drop"]
        if n_name:
            lines.append(cell_push_line(m, n_name))
        if limit_stack:
            lines.append("limit stack %d" % (1 if n_name else 0))
        lines += ["eval " + word]
        if limit_stack:
            lines.append("limit stack none")
        k = sum(1 for ln in lines if ln.startswith("eval")) - 1
        lines += ["eval depth collect drop offset remain", "stack"]
        exp = [("no_panic",)]
        if req is not None:
            exp.append(("read_contract", str(signed(sval(m, req), 128)), k))
        return {"lines": lines, "expect": exp}
    return build


def read_word_lemma(word, target, nbits_of, kind):
    """kind: 'raw' (pushes the bit-string), 'num' (pushes a tagged number); nbits_of(argterm128|None) -> requested bits (128-bit term)"""
    def body(L):
        install_overrides(L.ex)
        has_arg = nbits_of is not None and getattr(nbits_of, "takes_arg", True)
        n = L.cell("n")
        pre = CursorPre(L, stack=[n] if has_arg else [])
        pc = list(pre.pc)
        if has_arg:
            pc.append(untagged(L, n))
        fn, args = word_call(L, target, pre.xs)
        outs = L.run(fn, args, pc, pre.roots())
        ni = int_payload("n")
        req = nbits_of(ni) if nbits_of is not None else None      # mathematical request, 128-bit
        L.witness(outs, lambda o: o.kind == "return" and o.value.variant == "Ok", word + " succeeds on some input")
        for o in outs:
            if o.kind != "return":
                L.fail(o, "%s must not panic: %s" % (word, (o.msg or "")[:90]), cex=scen_read(word, "n" if has_arg else None))
                continue
            S1 = final_state(L, o)
            kindr = L.result_kind(o)
            L.require(o, invariant_after(L, pre, S1), word + ": cursor invariant holds afterwards (offset inside input)")
            if kindr[0] == "Ok":
                ds1 = L.field(S1, "State", "data_stack")
                if not ds1.items:
                    L.require(o, False, word + ": success pushes a result")
                    continue
                res = ds1.items[-1]
                L.require(o, stack_is(L, pre, S1, [res]), word + ": success leaves the stack below untouched and pushes one cell")
                L.require(o, veq(L.ex, pre.slot(S1, "input"), pre.input_cell), word + ": input unchanged by a successful read")
                L.require(o, veq(L.ex, pre.slot(S1, "stash"), pre.stash_cell), word + ": stash unchanged by a read")
                oc = pre.slot(S1, "offset")
                newoff = L.payload(oc, 0, "i128").t if oc.variant == "Int" else None
                if newoff is None:
                    L.require(o, False, word + ": offset stays an integer")
                    continue
                L.require(o, z3.And(req >= 0, newoff == pre.off + req), word + ": success advances the offset by exactly the requested number of bits",
                          cex=scen_read(word, "n" if has_arg else None, req))
                L.require(o, pre.off + req <= z3.ZeroExt(64, pre.i_end.t), word + ": success only if the requested bits were available",
                          cex=scen_read(word, "n" if has_arg else None, req))
                if kind == "raw":
                    bs = bitstr_of(L, res) if isinstance(res, Enum) and res.variant is not None else None
                    if bs is None:
                        L.require(o, False, word + ": result is a bit-string")
                        continue
                    s, e = rng_of(L, bs)
                    L.require(o, z3.And(z3.ZeroExt(64, s) == pre.off, z3.ZeroExt(64, e) == pre.off + req,
                                        veq(L.ex, L.field(bs, "Bitstr", "data"), L.field(pre.inp, "Bitstr", "data"))),
                              word + ": result is bits [offset, offset+n) of the current input", cex=scen_read(word, "n" if has_arg else None, req))
                else:
                    L.require(o, z3.BoolVal(isinstance(res, Enum) and res.variant == "WithTag"), word + ": numeric result carries the len/big tags")
            else:
                # failure: nothing moved, only the argument was consumed
                L.require(o, cursor_unchanged(L, pre, S1), word + ": a failing read leaves input, offset and stash untouched",
                          cex=scen_read(word, "n" if has_arg else None, req if req is not None else z3.BitVecVal(0, 128), limit_stack=True))
                ds1 = L.field(S1, "State", "data_stack")
                alts = [stack_is(L, pre, S1, pre.ds.items[:k]) for k in range(len(pre.ds.items) + 1)]
                L.require(o, z3.Or(*alts), word + ": a failing read leaves the rest of the stack untouched")
    return body


def seek_lemma(word, target):
    def body(L):
        install_overrides(L.ex)
        n = L.cell("n")
        pre = CursorPre(L, stack=[n])
        outs = L.run(L.fn(target), [pre.xs], pre.pc + [untagged(L, n)], pre.roots())
        ni = int_payload("n")
        L.witness(outs, lambda o: o.kind == "return" and o.value.variant == "Ok", "seek succeeds somewhere")
        for o in outs:
            if o.kind != "return":
                L.fail(o, "seek must not panic: %s" % (o.msg or "")[:90], cex=scen_read(word, "n"))
                continue
            S1 = final_state(L, o)
            L.require(o, invariant_after(L, pre, S1), "seek: cursor invariant holds afterwards")
            inside = z3.And(ni >= z3.ZeroExt(64, pre.i_start.t), ni <= z3.ZeroExt(64, pre.i_end.t))
            if L.result_kind(o)[0] == "Ok":
                oc = pre.slot(S1, "offset")
                L.require(o, z3.And(inside, L.payload(oc, 0, "i128").t == ni) if oc.variant == "Int" else False,
                          "seek: success only for a position inside the input, and the offset becomes exactly that position",
                          cex=lambda m: {"lines": ["input 0a0b0c0d", cell_push_line(m, "n"), "eval seek", "eval offset", "stack"],
                                         "expect": [("no_panic",), ("any_of", [[("last_result_in", ["ok"]), ("top_in", [("int", str(signed(sval(m, int_payload("n")), 128)))])]])]})
                L.require(o, z3.And(veq(L.ex, pre.slot(S1, "input"), pre.input_cell), veq(L.ex, pre.slot(S1, "stash"), pre.stash_cell),
                                    stack_is(L, pre, S1, [])), "seek: input, stash and the rest of the stack untouched")
            else:
                L.require(o, cursor_unchanged(L, pre, S1), "seek: a failing seek leaves input, offset and stash untouched")
                vn = variant_on_path(L, o, n)
                if vn == "Int":
                    L.require(o, z3.Or(z3.Not(inside), z3.ULT(pre.visible_depth(), U64(1))), "seek: an in-range integer position never fails", cex=scen_read(word, "n"))
    return body


def remain_lemma(word, target):
    def body(L):
        install_overrides(L.ex)
        pre = CursorPre(L, stack=[])
        outs = L.run(L.fn(target), [pre.xs], pre.pc, pre.roots())
        L.witness(outs, lambda o: o.kind == "return" and o.value.variant == "Ok", "remain succeeds")
        for o in outs:
            if o.kind != "return":
                L.fail(o, "remain must not panic: %s" % (o.msg or "")[:90])
                continue
            S1 = final_state(L, o)
            L.require(o, cursor_unchanged(L, pre, S1), "remain: cursor untouched")
            if L.result_kind(o)[0] == "Ok":
                ds1 = L.field(S1, "State", "data_stack")
                res = ds1.items[-1] if ds1.items else None
                ok = isinstance(res, Enum) and res.variant == "Int"
                L.require(o, z3.And(stack_is(L, pre, S1, [res]), L.payload(res, 0, "i128").t == z3.ZeroExt(64, pre.i_end.t) - pre.off) if ok else False,
                          "remain == end - offset")
    return body


def open_close_lemma():
    def body(L):
        install_overrides(L.ex)
        s = L.cell("s")
        pre = CursorPre(L, stack=[s])
        outs = L.run(L.fn("word_open_bitstr"), [pre.xs], pre.pc + [untagged(L, s)], pre.roots())
        L.witness(outs, lambda o: o.kind == "return" and o.value.variant == "Ok", "open-bitstr succeeds on a bit-string")
        for o in outs:
            if o.kind != "return":
                L.fail(o, "open-bitstr must not panic: %s" % (o.msg or "")[:90])
                continue
            S1 = final_state(L, o)
            vs = variant_on_path(L, o, s)
            if L.result_kind(o)[0] != "Ok":
                L.require(o, cursor_unchanged(L, pre, S1), "open-bitstr: failure leaves the cursor untouched")
                continue
            newin, newoff, newst = pre.slot(S1, "input"), pre.slot(S1, "offset"), pre.slot(S1, "stash")
            sb = L.payload(s, 0, "bitstr::Bitstr") if False else None
            okshape = isinstance(newin, Enum) and newin.variant == "Bitstr" and isinstance(newoff, Enum) and newoff.variant == "Int"
            if not okshape:
                L.require(o, False, "open-bitstr: input becomes the opened bit-string and offset an integer")
                continue
            ns, ne = rng_of(L, L.payload(newin, 0, "bitstr::Bitstr"))
            L.require(o, L.payload(newoff, 0, "i128").t == z3.ZeroExt(64, ns), "open-bitstr: offset = start of the opened bit-string",
                      cex=lambda m: {"lines": ["input ff00ff", "eval 8 bits drop", "eval 8 bits open-bitstr", "eval remain offset", "stack"],
                                     "expect": [("no_panic",), ("last_result_in", ["ok"]), ("top_in", [("int", "8")]), ("second_in", [("int", "8")])]})
            # now close on the resulting state: must restore (input, offset, stash) exactly (LIFO)
            st2 = o.st
            xs2 = st2.ghost["roots"]["xs"]
            outs2 = L.run(L.fn("word_close_bitstr"), [xs2], list(st2.pc), {"xs": xs2})
            for o2 in outs2:
                if o2.kind != "return":
                    L.fail(o2, "close-bitstr must not panic: %s" % (o2.msg or "")[:90])
                    continue
                S2 = final_state(L, o2)
                L.require(o2, z3.BoolVal(L.result_kind(o2)[0] == "Ok"), "close-bitstr after open-bitstr succeeds")
                if L.result_kind(o2)[0] == "Ok":
                    L.require(o2, cursor_unchanged(L, pre, S2), "close-bitstr restores the previous input, offset and stash exactly (LIFO)",
                              cex=lambda m: {"lines": ["input 010203", "eval 8 bits drop 16 bits open-bitstr",            # outer input: bits [8,24), not read yet
                                                       "eval |ff| open-bitstr u8 drop close-bitstr", "eval offset remain",   # -> 8 16
                                                       "eval u8 drop", "eval |ff| open-bitstr u8 drop close-bitstr", "eval offset remain",   # partly read -> 16 8
                                                       "stack"],
                                             "expect": [("no_panic",), ("last_result_in", ["ok"]), ("cells_are", [("int", "8"), ("int", "16"), ("int", "16"), ("int", "8")])]})
    return body


def nb(k):
    f = lambda ni: z3.BitVecVal(k, 128)
    f.takes_arg = False
    return f


def run(L, tier, only=None):
    wm = word_map(L.ex, "bitstr_ext::load")
    L.ex.path_budget = 6000

    def want(w):
        return (not only) or w in only
    plan = [("bits", "raw", lambda ni: ni), ("bytes", "raw", lambda ni: ni * 8)]
    for w, kind, f in plan:
        if want(w) and w in wm:
            L.lemma("C06 " + w, read_word_lemma(w, wm[w][0], f, kind))
    fixed = ["u8", "i8", "u16le", "i16be", "u32", "i32le", "u64be", "i64", "f32", "f64le"]
    if tier != "quick":
        fixed = [w for w in wm if __import__("re").fullmatch(r"[uif](8|16|32|64)(le|be)?", w)]
    for w in fixed:
        if want(w) and w in wm:
            k = int(__import__("re").search(r"\d+", w).group(0))
            L.lemma("C06 " + w, read_word_lemma(w, wm[w][0], nb(k), "num"))
    for w in ("int", "uint", "float"):
        if want(w) and w in wm:
            L.lemma("C06 " + w, read_word_lemma(w, wm[w][0], lambda ni: ni, "num"))
    if want("seek"):
        L.lemma("C06 seek", seek_lemma("seek", wm["seek"][0]))
    if want("remain"):
        L.lemma("C06 remain", remain_lemma("remain", wm["remain"][0]))
    if want("open-bitstr"):
        L.lemma("C06 open/close-bitstr", open_close_lemma())
    L.ex.path_budget = None
