"""Struct / enum definitions of the crate, read from the Rust source (field order, variant order).
MIR projections use indices, aggregates use names; this is the bridge. Regenerated from /repo."""
import os, re
from e2.mirparse import split_top, find_matching


def strip_comments(src):
    out = []
    i = 0
    n = len(src)
    while i < n:
        if src.startswith("//", i):
            j = src.find("\n", i)
            i = n if j < 0 else j
        elif src.startswith("/*", i):
            j = src.find("*/", i + 2)
            i = n if j < 0 else j + 2
        elif src[i] == '"':
            j = i + 1
            while j < n and src[j] != '"':
                j += 2 if src[j] == "\\" else 1
            out.append('""')
            i = j + 1
        else:
            out.append(src[i])
            i += 1
    return "".join(out)


class Defs:
    def __init__(self):
        self.structs = {}   # name -> [(field, type)]   (tuple structs: field names "0","1",..)
        self.enums = {}     # name -> [(variant, kind, [(field, type)])]  kind in unit/tuple/struct
        self.module = {}    # name -> module (file stem)

    def variant_index(self, enum, variant):
        for i, (v, _, _) in enumerate(self.enums[enum]):
            if v == variant:
                return i
        raise KeyError((enum, variant))

    def variant_fields(self, enum, variant):
        for (v, k, fs) in self.enums[enum]:
            if v == variant:
                return fs
        raise KeyError((enum, variant))


def parse_fields(body, tuple_like):
    fs = []
    for k, part in enumerate(split_top(body)):
        part = re.sub(r"#\[[^\]]*\]", "", part).strip()
        if not part:
            continue
        part = re.sub(r"^pub(\([a-z]+\))?\s+", "", part)
        if tuple_like:
            fs.append((str(len(fs)), part))
        else:
            name, ty = part.split(":", 1)
            fs.append((name.strip(), ty.strip()))
    return fs


def load_defs(repo):
    d = Defs()
    srcdir = os.path.join(repo, "src")
    for fn in sorted(os.listdir(srcdir)):
        if not fn.endswith(".rs"):
            continue
        mod = fn[:-3]
        src = strip_comments(open(os.path.join(srcdir, fn)).read())
        for m in re.finditer(r"\b(struct|enum)\s+([A-Za-z_][A-Za-z0-9_]*)\s*(<[^>{(;]*>)?\s*([({;])", src):
            kind, name, _, opener = m.groups()
            pos = m.end() - 1
            if kind == "struct":
                if opener == ";":
                    d.structs[name] = []
                elif opener == "(":
                    e = find_matching(src, pos)
                    d.structs[name] = parse_fields(src[pos + 1:e], True)
                else:
                    e = find_matching(src, pos)
                    d.structs[name] = parse_fields(src[pos + 1:e], False)
                d.module[name] = mod
            else:
                if opener != "{":
                    continue
                e = find_matching(src, pos)
                vs = []
                for part in split_top(src[pos + 1:e]):
                    part = re.sub(r"#\[[^\]]*\]", "", part).strip()
                    if not part:
                        continue
                    mm = re.match(r"^([A-Za-z_][A-Za-z0-9_]*)\s*(.*)$", part, re.S)
                    vname, rest = mm.group(1), mm.group(2).strip()
                    if rest.startswith("("):
                        vs.append((vname, "tuple", parse_fields(rest[1:find_matching(rest, 0)], True)))
                    elif rest.startswith("{"):
                        vs.append((vname, "struct", parse_fields(rest[1:find_matching(rest, 0)], False)))
                    else:
                        vs.append((vname, "unit", []))
                d.enums[name] = vs
                d.module[name] = mod
    # std enums the MIR refers to by variant name
    d.enums.setdefault("Option", [("None", "unit", []), ("Some", "tuple", [("0", "T")])])
    d.enums.setdefault("Result", [("Ok", "tuple", [("0", "T")]), ("Err", "tuple", [("0", "E")])])
    d.enums.setdefault("ControlFlow", [("Continue", "tuple", [("0", "C")]), ("Break", "tuple", [("0", "B")])])
    d.enums.setdefault("Cow", [("Borrowed", "tuple", [("0", "B")]), ("Owned", "tuple", [("0", "O")])])
    d.enums.setdefault("Ordering", [("Less", "unit", []), ("Equal", "unit", []), ("Greater", "unit", [])])
    d.structs.setdefault("Range", [("start", "Idx"), ("end", "Idx")])
    d.structs.setdefault("RangeFrom", [("start", "Idx")])
    d.structs.setdefault("RangeTo", [("end", "Idx")])
    d.structs.setdefault("RangeFull", [])
    return d


if __name__ == "__main__":
    import sys
    d = load_defs(sys.argv[1] if len(sys.argv) > 1 else "/repo")
    for k, v in d.structs.items():
        print("struct", k, v)
    for k, v in d.enums.items():
        print("enum", k, [(a, b, len(c)) for a, b, c in v])
