"""Symbolic texts for mirsym: a text is a sequence of a concrete number of symbolic characters (Unicode scalar
values as 32-bit terms); byte offsets are sums of the characters' UTF-8 lengths, so multi-byte characters,
char-boundary panics and byte-vs-char confusions are all visible to the solver.

Summaries here model std / arcstr only (str, String, Chars, CharIndices, char methods, ArcStr, Substr,
i128::from_str_radix, str::parse::<f64>).  The crate's own code (lex.rs ...) runs for real on top of them.
They are active only for values built by this module; every other string stays opaque as before."""
import re
import z3
from e2.values import *

NotHandled = object()


class SymText(Atom):
    def __init__(self, name, chars, ascii=False):
        """ascii=True: the creator constrains every character to ASCII, so byte offsets are the char indices"""
        self.name, self.chars, self.ascii = name, list(chars), ascii
        offs = [z3.BitVecVal(0, 64)]
        for c in self.chars:
            offs.append(z3.simplify(offs[-1] + (z3.BitVecVal(1, 64) if ascii else len_utf8(c))))
        self.offs = offs

    def __len__(self):
        return len(self.chars)


class Text(Atom):
    """ArcStr / &str / Substr: chars [lo, hi) of a SymText; kind in arc | str | substr"""

    def __init__(self, sym, lo, hi, kind):
        self.sym, self.lo, self.hi, self.kind = sym, lo, hi, kind

    def chars(self):
        return self.sym.chars[self.lo:self.hi]

    def byte_len(self):
        return z3.simplify(self.sym.offs[self.hi] - self.sym.offs[self.lo])

    def __repr__(self):
        return "Text<%s>(%s[%d..%d])" % (self.kind, self.sym.name, self.lo, self.hi)


class StrBuf(Atom):
    """String: chars is a python list of char terms, or None for a buffer with unknown content"""

    def __init__(self, chars):
        self.chars = chars

    def __repr__(self):
        return "StrBuf(%s)" % ("?" if self.chars is None else len(self.chars))


class CharsIt(Atom):
    def __init__(self, sym, i, hi, base, indices):
        self.sym, self.i, self.hi, self.base, self.indices = sym, i, hi, base, indices

    def __repr__(self):
        return "CharsIt(%s@%d..%d)" % (self.sym.name, self.i, self.hi)


class GhostBits(Atom):
    """BitvecBuilder / the Bitstr it finishes into, as the list of appended bit terms (8-bit each, 0 or 1)"""

    def __init__(self, bits, finished=False):
        self.bits, self.finished = bits, finished

    def __repr__(self):
        return "GhostBits(%d)" % len(self.bits)


class FmtOut(Atom):
    """std::fmt::Formatter as the list of what was written: char terms, or (kind, value) chunks for
    formatted arguments whose text is not expanded; width: None | Int"""

    def __init__(self, chunks, width=None):
        self.chunks, self.width = chunks, width

    def __repr__(self):
        return "FmtOut(%d chunks)" % len(self.chunks)


class FmtArg(Atom):
    def __init__(self, kind, ty, value):
        self.kind, self.ty, self.value = kind, ty, value


class FmtArgs(Atom):
    def __init__(self, template, args):
        self.template, self.args = template, args


def unescape_bytes(lit):
    """b"..." literal text -> bytes"""
    if not (lit.startswith('b"') and lit.endswith('"')):
        return None
    s, out, i = lit[2:-1], bytearray(), 0
    while i < len(s):
        ch = s[i]
        if ch != "\\":
            out += ch.encode()
            i += 1
            continue
        nx = s[i + 1]
        simple = {"n": 10, "r": 13, "t": 9, "\\": 92, '"': 34, "'": 39, "0": 0}
        if nx in simple:
            out.append(simple[nx])
            i += 2
        elif nx == "x":
            out.append(int(s[i + 2:i + 4], 16))
            i += 4
        else:
            return None
    return bytes(out)


def len_utf8(c):
    one = lambda n: z3.BitVecVal(n, 64)
    return z3.If(z3.ULT(c, 0x80), one(1), z3.If(z3.ULT(c, 0x800), one(2), z3.If(z3.ULT(c, 0x10000), one(3), one(4))))


def valid_char(c):
    return z3.And(z3.ULE(c, 0x10FFFF), z3.Or(z3.ULT(c, 0xD800), z3.UGT(c, 0xDFFF)))


def is_ws(c):
    return z3.Or(c == 0x20, c == 0x09, c == 0x0A, c == 0x0C, c == 0x0D)


def is_dec_digit(c):
    return z3.And(z3.UGE(c, 0x30), z3.ULE(c, 0x39))


def digit_value(c, radix):
    """(is_digit, value as 32-bit term) of char::to_digit(radix) for a concrete radix 2..=36"""
    v = z3.BitVecVal(0, 32)
    ok = z3.BoolVal(False)
    nd = min(radix, 10)
    d_ok = z3.And(z3.UGE(c, 0x30), z3.ULT(c, 0x30 + nd))
    ok = d_ok
    v = z3.If(d_ok, c - 0x30, v)
    if radix > 10:
        nl = radix - 10
        lo_ok = z3.And(z3.UGE(c, 0x61), z3.ULT(c, 0x61 + nl))
        up_ok = z3.And(z3.UGE(c, 0x41), z3.ULT(c, 0x41 + nl))
        ok = z3.Or(d_ok, lo_ok, up_ok)
        v = z3.If(d_ok, c - 0x30, z3.If(lo_ok, c - 0x61 + 10, z3.If(up_ok, c - 0x41 + 10, z3.BitVecVal(0, 32))))
    return ok, v


def unescape_rust(lit):
    """text of a MIR string literal  "..."  -> python str (None when it is not fully printed)"""
    if not (lit.startswith('"') and lit.endswith('"') and len(lit) >= 2):
        return None
    s, out, i = lit[1:-1], [], 0
    while i < len(s):
        ch = s[i]
        if ch != "\\":
            out.append(ch)
            i += 1
            continue
        nx = s[i + 1] if i + 1 < len(s) else ""
        simple = {"n": "\n", "r": "\r", "t": "\t", "\\": "\\", '"': '"', "'": "'", "0": "\0"}
        if nx in simple:
            out.append(simple[nx])
            i += 2
        elif nx == "u":
            j = s.index("}", i)
            out.append(chr(int(s[i + 3:j], 16)))
            i = j + 1
        elif nx == "x":
            out.append(chr(int(s[i + 2:i + 4], 16)))
            i += 4
        else:
            return None
    return "".join(out)


def mk_text(name, k, kind="arc", ascii=False):
    """a text of exactly k arbitrary characters; returns (Text, constraints)"""
    chars = [z3.BitVec("%s.c%d" % (name, i), 32) for i in range(k)]
    sym = SymText(name, chars, ascii)
    return Text(sym, 0, k, kind), [(z3.ULT(c, 0x80) if ascii else valid_char(c)) for c in chars]


class StrSummaries:
    def __init__(self, summ):
        self.summ = summ
        self.ex = summ.ex

    # -------------------------------------------------------------- helpers
    def deref(self, st, v):
        while isinstance(v, Ref):
            v = self.ex.get_at(st, v.box, v.path)
        return v

    def text_of(self, st, v):
        """Text / StrBuf / decoded literal behind an argument, else None"""
        v = self.deref(st, v)
        if isinstance(v, (Text, StrBuf)):
            return v
        return None

    def literal_of(self, st, v):
        v = self.deref(st, v)
        if isinstance(v, Opaque) and str(v.term).startswith("strlit!"):
            return unescape_rust(str(v.term)[len("strlit!"):])
        return None

    def idx_of(self, st, sym, t, what):
        """char index whose byte offset is t: fork over the feasible ones; anything else is the real panic"""
        ex = self.ex
        t = z3.simplify(t)
        for i, o in enumerate(sym.offs):
            if t.eq(o):
                return i
        cands = [i for i in range(len(sym.offs)) if ex.feasible(st, t == sym.offs[i])]
        on_boundary = z3.Or(*[t == o for o in sym.offs])
        self.summ.bounds_check(st, on_boundary, "%s: byte index is not a char boundary / out of range" % what)
        if not cands:
            raise_dead_()
        if len(cands) == 1:
            return cands[0]
        from e2.summaries import raise_fork
        raise_fork([(t == sym.offs[i], None, "%s at char %d" % (what, i)) for i in cands])

    def ref(self, v, name):
        return Ref(Box(v, name=self.ex.fresh_name(name)))

    def chars_of(self, st, v, what):
        t = self.text_of(st, v)
        if isinstance(t, Text):
            return t.chars()
        if isinstance(t, StrBuf):
            if t.chars is None:
                raise Unsupported("%s of a String with unknown content" % what)
            return list(t.chars)
        return None

    # -------------------------------------------------------------- dispatcher
    def call(self, st, fr, n, name, A):
        ex, S = self.ex, self.summ
        n = name.strip()           # patterns below are written against the raw MIR callee path
        # ---- char methods (pure; also usable on chars that did not come from a Text)
        m = re.match(r"^char::methods::<impl char>::(is_ascii_whitespace|is_ascii_digit|len_utf8|to_digit|is_digit|is_ascii_hexdigit|is_whitespace)$", n)
        if m:
            c = self.deref(st, A[0])
            if not isinstance(c, Int):
                return NotHandled
            meth = m.group(1)
            if meth == "is_ascii_whitespace":
                return Bool(is_ws(c.t))
            if meth == "is_ascii_digit":
                return Bool(is_dec_digit(c.t))
            if meth == "is_ascii_hexdigit":
                return Bool(digit_value(c.t, 16)[0])
            if meth == "len_utf8":
                if not ex.feasible(st, z3.UGE(c.t, 0x80)):
                    return Int(z3.BitVecVal(1, 64), 64, False)
                return Int(len_utf8(c.t), 64, False)
            if meth == "is_digit":
                rd = z3.simplify(A[1].t)
                if not z3.is_bv_value(rd):
                    raise Unsupported("is_digit with a symbolic radix")
                return Bool(digit_value(c.t, rd.as_long())[0])
            if meth == "to_digit":
                rd = A[1]
                if not z3.is_bv_value(z3.simplify(rd.t)):
                    raise Unsupported("to_digit with a symbolic radix")
                ok, v = digit_value(c.t, z3.simplify(rd.t).as_long())
                return S.sym_option(st, "Option<u32>", ok, Int(v, 32, False))
            return NotHandled
        # ---- String
        m = re.match(r"^(?:std::string::)?String::(new|push|pop|clear|len|is_empty|as_str|push_str)$", n)
        if m:
            meth = m.group(1)
            if meth == "new":
                return NotHandled if not getattr(ex, "string_model", False) else StrBuf([])
            b = self.deref(st, A[0])
            if not isinstance(b, StrBuf):
                return NotHandled
            r0 = A[0]
            if meth == "clear":
                ex.set_at(st, r0.box, r0.path, StrBuf([]))
                return Unit()
            if b.chars is None:
                raise Unsupported("String::%s on a buffer with unknown content" % meth)
            if meth == "push":
                ex.set_at(st, r0.box, r0.path, StrBuf(b.chars + [A[1].t]))
                return Unit()
            if meth == "push_str":
                cs = self.chars_of(st, A[1], "push_str")
                if cs is None:
                    raise Unsupported("push_str of an opaque str")
                ex.set_at(st, r0.box, r0.path, StrBuf(b.chars + cs))
                return Unit()
            if meth == "pop":
                if not b.chars:
                    return S.option("char")
                ex.set_at(st, r0.box, r0.path, StrBuf(b.chars[:-1]))
                return S.option("char", Int(b.chars[-1], 32, False))
            if meth == "len":
                tot = z3.BitVecVal(0, 64)
                for c in b.chars:
                    tot = tot + len_utf8(c)
                return Int(z3.simplify(tot), 64, False)
            if meth == "is_empty":
                return Bool(z3.BoolVal(not b.chars))
            if meth == "as_str":
                return A[0]
        # ---- ArcStr / Substr / str
        m = re.match(r"^<(?:arcstr::)?ArcStr as From<&(?:std::string::)?String>>::from$|^<(?:arcstr::)?ArcStr as From<&str>>::from$", n)
        if m:
            cs = self.chars_of(st, A[0], "ArcStr::from")
            if cs is None:
                return NotHandled
            return Text(SymText(ex.fresh_name("arcstr"), cs), 0, len(cs), "arc")
        m = re.match(r"^<(?:arcstr::)?ArcStr as Index<(?:std::ops::)?(RangeFrom|Range|RangeTo)<usize>>>::index$|^core::str::traits::<impl Index<(?:std::ops::)?(RangeFrom|Range|RangeTo)<usize>> for str>::index$", n)
        if m:
            t = self.text_of(st, A[0])
            if not isinstance(t, Text):
                return NotHandled
            lo, hi = self.range_idx(st, t, A[1], m.group(1) or m.group(2), "str index")
            return self.ref(Text(t.sym, lo, hi, "str"), "strslice")
        m = re.match(r"^(?:arcstr::)?ArcStr::substr::<(?:std::ops::)?(RangeFrom|Range|RangeTo|RangeFull)(?:<usize>)?>$", n)
        if m:
            t = self.text_of(st, A[0])
            if not isinstance(t, Text):
                return NotHandled
            lo, hi = self.range_idx(st, t, A[1], m.group(1), "ArcStr::substr")
            return Text(t.sym, lo, hi, "substr")
        m = re.match(r"^(?:arcstr::)?Substr::(as_str|parent|range|len|is_empty)$|^(?:arcstr::)?ArcStr::(as_str|len|is_empty)$", n)
        if m:
            t = self.text_of(st, A[0])
            if not isinstance(t, Text):
                return NotHandled
            meth = m.group(1) or m.group(2)
            if meth == "as_str":
                return self.ref(Text(t.sym, t.lo, t.hi, "str"), "as_str")
            if meth == "parent":
                return self.ref(Text(t.sym, 0, len(t.sym), "arc"), "parent")
            if meth == "range":
                return Struct("std::ops::Range<usize>", {0: Int(t.sym.offs[t.lo], 64, False), 1: Int(t.sym.offs[t.hi], 64, False)})
            if meth == "len":
                return Int(t.byte_len(), 64, False)
            if meth == "is_empty":
                return Bool(z3.BoolVal(t.lo == t.hi))
        m = re.match(r"^core::str::<impl str>::(chars|char_indices|len|is_empty)$", n)
        if m:
            t = self.text_of(st, A[0])
            if t is None:
                return NotHandled
            meth = m.group(1)
            if isinstance(t, StrBuf):
                if t.chars is None:
                    raise Unsupported("str::%s of unknown String" % meth)
                t = Text(SymText(ex.fresh_name("strbuf"), t.chars), 0, len(t.chars), "str")
            if meth in ("chars", "char_indices"):
                return CharsIt(t.sym, t.lo, t.hi, t.lo, meth == "char_indices")
            if meth == "len":
                return Int(t.byte_len(), 64, False)
            return Bool(z3.BoolVal(t.lo == t.hi))
        m = re.match(r"^core::str::<impl str>::strip_prefix::<char>$", n)
        if m:
            cs = self.chars_of(st, A[0], "strip_prefix")
            if cs is None:
                return NotHandled
            if not cs:
                return S.option("&str")
            rest = self.ref(Text(SymText(ex.fresh_name("stripped"), cs[1:]), 0, len(cs) - 1, "str"), "stripped")
            return S.sym_option(st, "Option<&str>", cs[0] == A[1].t, rest)
        m = re.match(r"^<(?:std::str::)?Chars<'?_?> as Iterator>::(all|any)::<", n)
        if m:
            it = self.deref(st, A[0])
            if not isinstance(it, CharsIt):
                return NotHandled
            terms = []
            for c in it.sym.chars[it.i:it.hi]:
                alts = S.run_closure(st, A[1], [Int(c, 32, False)])
                if len(alts) != 1 or alts[0][0] is not st:
                    raise Unsupported("Chars::%s: the predicate forked" % m.group(1))
                terms.append(alts[0][1].t)
            r0 = A[0]
            ex.set_at(st, r0.box, r0.path, CharsIt(it.sym, it.hi, it.hi, it.base, it.indices))
            if m.group(1) == "all":
                return Bool(z3.And(*terms) if terms else z3.BoolVal(True))
            return Bool(z3.Or(*terms) if terms else z3.BoolVal(False))
        # ---- Chars adaptors used by string slicing: count / skip(n) / take(n) / collect::<String>()
        m = re.match(r"^<(?:std::str::)?Chars<'?_?> as Iterator>::(count|skip)$|^<(?:std::iter::)?Skip<Chars<'?_?>> as Iterator>::(take)$|^<(?:std::iter::)?Take<Skip<Chars<'?_?>>> as Iterator>::(collect)::<(?:std::string::)?String>$", n)
        if m:
            it = A[0] if not isinstance(A[0], Ref) else self.deref(st, A[0])
            if not isinstance(it, CharsIt) or it.indices:
                return NotHandled
            meth = m.group(1) or m.group(2) or m.group(3)
            remaining = it.hi - it.i
            if meth == "count":
                return Int(z3.BitVecVal(remaining, 64), 64, False)
            if meth == "collect":
                return StrBuf(list(it.sym.chars[it.i:it.hi]))
            k = ex.concrete_int(st, z3.If(z3.ULT(A[1].t, z3.BitVecVal(remaining, 64)), A[1].t, z3.BitVecVal(remaining, 64)),
                                candidates=list(range(0, remaining + 1)), what="chars().%s(n)" % meth)
            if meth == "skip":
                return CharsIt(it.sym, it.i + k, it.hi, it.base, False)
            return CharsIt(it.sym, it.i, it.i + k, it.base, False)        # take
        m = re.match(r"^<(?:std::str::)?(Chars|CharIndices)<'?_?> as Iterator>::next$", n)
        if m:
            it = self.deref(st, A[0])
            if not isinstance(it, CharsIt):
                return NotHandled
            r0 = A[0]
            if it.i >= it.hi:
                return S.option("(usize, char)" if it.indices else "char")
            c = Int(it.sym.chars[it.i], 32, False)
            ex.set_at(st, r0.box, r0.path, CharsIt(it.sym, it.i + 1, it.hi, it.base, it.indices))
            if it.indices:
                off = Int(z3.simplify(it.sym.offs[it.i] - it.sym.offs[it.base]), 64, False)
                return S.option("(usize, char)", Tuple([off, c]))
            return S.option("char", c)
        # ---- std::fmt: a Formatter that records what is written
        m = re.match(r"^Formatter::<'_>::(width|write_str|write_fmt|alternate)$|^<Formatter<'_> as (?:std::fmt::)?Write>::(write_char|write_str)$", n)
        if m:
            f = self.deref(st, A[0])
            if not isinstance(f, FmtOut):
                return NotHandled
            meth = m.group(1) or m.group(2)
            r0 = A[0]
            while isinstance(ex.get_at(st, r0.box, r0.path), Ref):
                r0 = ex.get_at(st, r0.box, r0.path)
            ok = S.mk_enum("Result<(), std::fmt::Error>", "Ok", Unit())
            if meth == "width":
                return S.option("usize") if f.width is None else S.option("usize", f.width)
            if meth == "write_char":
                ex.set_at(st, r0.box, r0.path, FmtOut(f.chunks + [A[1].t], f.width))
                return ok
            if meth == "write_str":
                cs = self.chars_of(st, A[1], "write_str")
                if cs is None:
                    lit = self.literal_of(st, A[1])
                    if lit is None:
                        raise Unsupported("write_str of an opaque string")
                    cs = [z3.BitVecVal(ord(x), 32) for x in lit]
                ex.set_at(st, r0.box, r0.path, FmtOut(f.chunks + cs, f.width))
                return ok
            if meth == "write_fmt":
                fa = self.deref(st, A[1])
                if not isinstance(fa, FmtArgs):
                    raise Unsupported("write_fmt of opaque arguments")
                ex.set_at(st, r0.box, r0.path, FmtOut(f.chunks + self.expand_fmt(st, fa), f.width))
                return ok
        if getattr(ex, "string_model", False):
            m = re.match(r"^Arguments::<'_>::(from_str|new::<\d+, \d+>)$", n)
            if m:
                if m.group(1) == "from_str":
                    lit = self.literal_of(st, A[0])
                    if lit is None:
                        raise Unsupported("Arguments::from_str of a non-literal")
                    return FmtArgs(bytes([len(lit.encode())]) + lit.encode() + b"\0" if len(lit.encode()) < 0x80 else None, [])
                tv = self.deref(st, A[0])
                tb = unescape_bytes(str(tv.term)[len("strlit!"):]) if isinstance(tv, Opaque) and str(tv.term).startswith("strlit!") else None
                if tb is None:
                    raise Unsupported("format template not a byte literal: %r" % (tv,))
                av = self.deref(st, A[1])
                items = av.items if isinstance(av, (Vec, Tuple)) else None
                if items is None:
                    raise Unsupported("format arguments %r" % (av,))
                return FmtArgs(tb, [self.deref(st, x) if isinstance(x, Ref) else x for x in items])
            m = re.match(r"^core::fmt::rt::Argument::<'_>::new_(\w+)::<(.*)>$", n)
            if m:
                return FmtArg(m.group(1), m.group(2), self.deref(st, A[0]))
        # ---- comparisons
        m = re.match(r"^<&?(?:str|(?:arcstr::)?ArcStr|(?:arcstr::)?Substr|&(?:arcstr::)?ArcStr) as PartialEq(?:<.*>)?>::(eq|ne)$", n)
        if m:
            a, b = self.text_of(st, A[0]), self.text_of(st, A[1])
            la, lb = self.literal_of(st, A[0]), self.literal_of(st, A[1])
            if a is None and b is None:
                return NotHandled
            ca = self.chars_of(st, A[0], "eq") if a is not None else ([z3.BitVecVal(ord(x), 32) for x in la] if la is not None else None)
            cb = self.chars_of(st, A[1], "eq") if b is not None else ([z3.BitVecVal(ord(x), 32) for x in lb] if lb is not None else None)
            if ca is None or cb is None:
                raise Unsupported("comparison of a modelled text with an opaque string")
            if len(ca) != len(cb):
                # equal byte strings have equal char sequences, so differing char counts decide it
                eq = z3.BoolVal(False)
            else:
                eq = z3.And(*[x == y for x, y in zip(ca, cb)]) if ca else z3.BoolVal(True)
            eq = z3.simplify(eq)
            return Bool(eq if m.group(1) == "eq" else z3.Not(eq))
        # ---- number parsing
        m = re.match(r"^core::num::<impl (i128|i64|u64|u8|u32|usize|isize)>::from_str_radix$", n)
        if m:
            cs = self.chars_of(st, A[0], "from_str_radix")
            if cs is None:
                return NotHandled
            return self.from_str_radix(st, cs, A[1], m.group(1))
        m = re.match(r"^core::str::<impl str>::parse::<(f64)>$", n)
        if m:
            cs = self.chars_of(st, A[0], "parse")
            if cs is None:
                return NotHandled
            ok, val = parse_f64_uf(cs)
            if all(z3.is_bv_value(z3.simplify(c)) for c in cs):
                # concrete text (translator self-test): the correctly rounded decimal-to-double conversion
                txt = "".join(chr(z3.simplify(c).as_long()) for c in cs)
                try:
                    if not txt or any(ch not in "0123456789+-.eEinfatyINFATY" for ch in txt):
                        raise ValueError(txt)
                    ok, val = z3.BoolVal(True), z3.FPVal(float(txt), z3.Float64())
                except ValueError:
                    ok = z3.BoolVal(False)
            rty = "Result<f64, ParseFloatError>"
            co, ce = ex.feasible(st, ok), ex.feasible(st, z3.Not(ok))
            if co and ce:
                from e2.summaries import raise_fork
                raise_fork([(ok, None, "float parses"), (z3.Not(ok), None, "float rejected")])
            if co:
                return S.mk_enum(rty, "Ok", Float(val, 64))
            return S.mk_enum(rty, "Err", Opaque("ParseFloatError", z3.Const("ParseFloatError", opaque_sort("ParseFloatError"))))
        # ---- the bit-string builder of the lexer, as a ghost list of bits (bitstr::BitvecBuilder is decided by E1)
        if getattr(ex, "string_model", False):
            if n == "<bitstr::BitvecBuilder as Default>::default":
                return GhostBits([])
            if n == "bitstr::BitvecBuilder::append_bit":
                g = self.deref(st, A[0])
                if isinstance(g, GhostBits):
                    r0 = A[0]
                    ex.set_at(st, r0.box, r0.path, GhostBits(g.bits + [A[1].t]))
                    return Unit()
            if n == "bitstr::BitvecBuilder::finish":
                g = self.deref(st, A[0]) if isinstance(A[0], Ref) else A[0]
                if isinstance(g, GhostBits):
                    return GhostBits(g.bits, True)
        m = re.match(r"^(?:std::ops::)?Range::<usize>::contains::<usize>$", n)
        if m:
            rg = self.deref(st, A[0])
            x = self.deref(st, A[1])
            s0 = ex.step_get(st, rg, ("f", 0, "usize"))
            e0 = ex.step_get(st, rg, ("f", 1, "usize"))
            return Bool(z3.And(z3.ULE(s0.t, x.t), z3.ULT(x.t, e0.t)))
        return NotHandled

    def expand_fmt(self, st, fa):
        """chunks written by write_fmt: literal pieces as chars, `{}`-style placeholders as (kind, value) chunks
        or, where the text is determined (one hex digit), as the character"""
        ex = self.ex
        if fa.template is None:
            raise Unsupported("format template not modelled")
        t, i, out, argi = fa.template, 0, [], 0
        while True:
            b = t[i]
            if b == 0:
                break
            if b < 0x80:
                out += [z3.BitVecVal(ord(x), 32) for x in t[i + 1:i + 1 + b].decode()]
                i += 1 + b
                continue
            if b == 0x80:
                ln = t[i + 1] | (t[i + 2] << 8)
                out += [z3.BitVecVal(ord(x), 32) for x in t[i + 3:i + 3 + ln].decode()]
                i += 3 + ln
                continue
            if b == 0xC0:
                flags = None
                i += 1
            elif b == 0xC1:
                flags = int.from_bytes(t[i + 1:i + 5], "little")
                i += 5
            else:
                raise Unsupported("format placeholder byte %#x" % b)
            a = fa.args[argi]
            argi += 1
            v = a.value
            if a.kind in ("upper_hex", "lower_hex") and flags is None and isinstance(v, Int) and not v.signed and not ex.feasible(st, z3.UGE(v.t, 16)):
                d = z3.ZeroExt(32 - v.bits, v.t) if v.bits < 32 else z3.Extract(31, 0, v.t)
                base = 0x41 if a.kind == "upper_hex" else 0x61
                out.append(z3.If(z3.ULT(d, 10), d + 0x30, d - 10 + base))
            else:
                out.append((a.kind, flags, v))
        return out

    def range_idx(self, st, t, rg, kind, what):
        ex = self.ex
        rg = self.deref(st, rg)
        base = t.sym.offs[t.lo]
        lo, hi = t.lo, t.hi
        if kind in ("RangeFrom", "Range"):
            s0 = ex.step_get(st, rg, ("f", 0, "usize"))
            lo = self.idx_of(st, t.sym, base + s0.t, what + " start")
        if kind == "Range":
            e0 = ex.step_get(st, rg, ("f", 1, "usize"))
            hi = self.idx_of(st, t.sym, base + e0.t, what + " end")
        if kind == "RangeTo":
            e0 = ex.step_get(st, rg, ("f", 0, "usize"))
            hi = self.idx_of(st, t.sym, base + e0.t, what + " end")
        from e2.symex import Panic
        if lo < t.lo or hi > t.hi:
            raise Panic("panic", "%s: range outside the text" % what)
        if lo > hi:
            raise Panic("panic", "%s: range start after its end" % what)
        return lo, hi

    def from_str_radix(self, st, cs, radix, ity):
        """core::num::from_str_radix for a concrete radix: Ok(value) iff  [+-]? digit+  and the value fits"""
        ex, S = self.ex, self.summ
        rt = z3.simplify(radix.t)
        if not z3.is_bv_value(rt):
            raise Unsupported("from_str_radix with a symbolic radix")
        bits, signed = INT_TYPES[ity]
        if getattr(ex, "int_parse_uf", False):
            ok, val = int_of_chars_uf(cs, rt.as_long(), bits)
        else:
            ok, val = int_of_chars(cs, rt.as_long(), bits, signed)
        rty = "Result<%s, ParseIntError>" % ity
        ok = z3.simplify(ok)
        co, ce = ex.feasible(st, ok), ex.feasible(st, z3.Not(ok))
        if co and ce:
            from e2.summaries import raise_fork
            raise_fork([(ok, None, "int parses"), (z3.Not(ok), None, "int rejected")])
        if co:
            return S.mk_enum(rty, "Ok", Int(z3.simplify(val), bits, signed))
        return S.mk_enum(rty, "Err", Opaque("ParseIntError", z3.Const("ParseIntError", opaque_sort("ParseIntError"))))


def wide_bits(bits, n, radix):
    import math
    return max(bits, int(math.ceil(n * math.log2(radix))) + 1) + 8


def mul_radix(acc, radix, w):
    """acc * radix; powers of two as shifts (keeps long hex / binary spellings trivial for the bit-blaster)"""
    if radix & (radix - 1) == 0:
        return acc << z3.BitVecVal(radix.bit_length() - 1, w)
    return acc * z3.BitVecVal(radix, w)


def int_of_chars(cs, radix, bits, signed):
    """(ok, value term of `bits` bits): the std contract of from_str_radix on the char sequence cs"""
    n = len(cs)
    if n == 0:
        return z3.BoolVal(False), z3.BitVecVal(0, bits)
    w = wide_bits(bits, n, radix)              # wide enough for radix^n without wrapping
    def digits(ds):
        ok = z3.BoolVal(True)
        acc = z3.BitVecVal(0, w)
        for c in ds:
            d_ok, d = digit_value(c, radix)
            ok = z3.And(ok, d_ok)
            acc = mul_radix(acc, radix, w) + z3.ZeroExt(w - 32, d)
        return ok, acc
    plus, minus = cs[0] == 0x2B, cs[0] == 0x2D
    ok_all, v_all = digits(cs)
    maxv = (1 << (bits - 1)) - 1 if signed else (1 << bits) - 1
    minmag = (1 << (bits - 1)) if signed else 0
    fits_pos = lambda v: z3.ULE(v, z3.BitVecVal(maxv, w))
    fits_neg = lambda v: z3.ULE(v, z3.BitVecVal(minmag, w))
    alts_ok = z3.And(ok_all, fits_pos(v_all))
    val = z3.Extract(bits - 1, 0, v_all)
    if n >= 2:
        ok_r, v_r = digits(cs[1:])
        alts_ok = z3.If(plus, z3.And(ok_r, fits_pos(v_r)), z3.If(minus, z3.And(ok_r, fits_neg(v_r)) if signed else z3.BoolVal(False), alts_ok))
        val = z3.If(plus, z3.Extract(bits - 1, 0, v_r), z3.If(minus, -z3.Extract(bits - 1, 0, v_r), val))
    else:
        alts_ok = z3.And(z3.Not(plus), z3.Not(minus), alts_ok)
    return alts_ok, val


def int_of_chars_uf(cs, radix, bits):
    """from_str_radix left uninterpreted (per length and radix): used where only the plumbing is the subject"""
    n = len(cs)
    if n == 0:
        return z3.BoolVal(False), z3.BitVecVal(0, bits)
    dom = [z3.BitVecSort(32)] * n
    f_ok = z3.Function("from_str_radix_ok_%d_%d" % (radix, n), *(dom + [z3.BoolSort()]))
    f_val = z3.Function("from_str_radix_val_%d_%d" % (radix, n), *(dom + [z3.BitVecSort(bits)]))
    return f_ok(*cs), f_val(*cs)


def parse_f64_uf(cs):
    """<f64 as FromStr>::from_str, uninterpreted per length: (accepted, value) as functions of the characters"""
    n = len(cs)
    if n == 0:
        return z3.BoolVal(False), z3.FPVal(0.0, z3.Float64())
    dom = [z3.BitVecSort(32)] * n
    f_ok = z3.Function("f64_from_str_ok_%d" % n, *(dom + [z3.BoolSort()]))
    f_val = z3.Function("f64_from_str_val_%d" % n, *(dom + [z3.Float64()]))
    return f_ok(*cs), f_val(*cs)


def raise_dead_():
    from e2.summaries import raise_dead
    raise_dead()
