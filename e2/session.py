"""Load the MIR of /repo's current working tree (regenerated when the source hash changes) and
build executors. Two flavours: overflow-checks on (what `cargo build`/test runs) and off (release)."""
import os, pickle, sys, time, subprocess, shutil
sys.path.insert(0, os.path.dirname(os.path.dirname(os.path.abspath(__file__))))
from lib.common import *
from e2.mirparse import parse_mir
from e2.rustdefs import load_defs

MIRDIR = os.path.join(CACHE, "mir")


def dump_mir(flavour):
    """flavour 'on' | 'off' (overflow checks). Returns path of the MIR text."""
    h = os.environ.get("VERIF_MIR_PIN") or repo_src_hash()      # pin: development aid only, never set by ./check
    os.makedirs(MIRDIR, exist_ok=True)
    out = os.path.join(MIRDIR, "%s-%s.mir" % (h, flavour))
    if os.path.exists(out) and os.path.getsize(out) > 100000:
        return out
    # build in a private copy of the sources so that /repo/target and timestamps are untouched
    work = os.path.join(MIRDIR, "src-%s" % h)
    if not os.path.exists(work):
        os.makedirs(work)
        for f in ("Cargo.toml", "Cargo.lock"):
            shutil.copy(os.path.join(REPO, f), work)
        shutil.copytree(os.path.join(REPO, "src"), os.path.join(work, "src"))
        if os.path.exists(os.path.join(REPO, "benches")):
            shutil.copytree(os.path.join(REPO, "benches"), os.path.join(work, "benches"))
    cmd = ["cargo", "+nightly", "rustc", "--offline", "--lib", "--no-default-features", "--features", "calc_limit,verif_hooks",
           "--target-dir", os.path.join(MIRDIR, "target-" + flavour), "--", "-Zunpretty=mir",
           "-C", "debug-assertions=off", "-C", "overflow-checks=" + flavour]
    subprocess.run(["touch", os.path.join(work, "src", "lib.rs")])
    t0 = time.time()
    p = subprocess.run(cmd, cwd=work, env=env_with(), stdout=subprocess.PIPE, stderr=subprocess.PIPE)
    txt = p.stdout.decode("utf-8", "replace")
    if p.returncode != 0 or len(txt) < 100000:
        raise RuntimeError("MIR dump failed (rc=%s): %s" % (p.returncode, p.stderr.decode()[-1500:]))
    with open(out + ".tmp", "w") as f:
        f.write(txt)
    os.replace(out + ".tmp", out)
    # keep the most recent dumps (mutant runs alternate between source trees), drop older ones
    dumps = sorted([fn for fn in os.listdir(MIRDIR) if fn.endswith(".mir") and fn != "on.mir"],
                   key=lambda fn: os.path.getmtime(os.path.join(MIRDIR, fn)), reverse=True)
    keep = set(fn.split("-")[0] for fn in dumps[:12])
    for fn in os.listdir(MIRDIR):
        hh = fn[4:] if fn.startswith("src-") else fn.split("-")[0].split(".")[0]
        if (fn.endswith(".mir") or fn.endswith(".pickle") or fn.startswith("src-")) and fn != "on.mir" and hh not in keep:
            pth = os.path.join(MIRDIR, fn)
            shutil.rmtree(pth, ignore_errors=True) if os.path.isdir(pth) else os.remove(pth)
    return out


_cache = {}


def load(flavour="on"):
    """-> (funcs, defs, mir_path)"""
    if flavour in _cache:
        return _cache[flavour]
    path = dump_mir(flavour)
    pk = path + ".pickle"
    funcs = None
    if os.path.exists(pk) and os.path.getmtime(pk) >= max(os.path.getmtime(path), os.path.getmtime(os.path.join(VERIF, "e2", "mirparse.py"))):
        try:
            funcs = pickle.load(open(pk, "rb"))
        except Exception:
            funcs = None
    if funcs is None:
        funcs = parse_mir(open(path).read())
        pickle.dump(funcs, open(pk, "wb"))
    defs = load_defs(REPO)
    _cache[flavour] = (funcs, defs, path)
    return _cache[flavour]


def executor(flavour="on", **kw):
    from e2.symex import Executor
    funcs, defs, path = load(flavour)
    ex = Executor(funcs, defs, overflow_checks=(flavour == "on"), **kw)
    ex.mir_path = path
    ex.flavour = flavour
    import z3

    def bitstr_inv(origin):
        # range.start <= range.end, and positions small enough that byte/bit conversions cannot wrap
        st, en = z3.BitVec(origin + ".0.0", 64), z3.BitVec(origin + ".0.1", 64)
        return [z3.ULE(st, en), z3.ULE(en, z3.BitVecVal(1 << 60, 64))]
    ex.tc.invariants["Bitstr"] = bitstr_inv

    def withtag_inv(origin):
        # Cell::with_tags always stores value().clone(): the wrapped value is never itself a wrapper
        return [z3.BitVec(origin + ".1.discr", 64) != z3.BitVecVal(10, 64)]
    ex.tc.invariants["WithTag"] = withtag_inv
    from e2.bitstr_model import install, install_structural
    install(ex)
    install_structural(ex)
    return ex
