"""Concrete reference for C16 / C17 replays: what the documented spellings denote, token tiling, token locations.
Used only to confirm, on the real binary, a violation the solver has already found."""
import struct

WS = " \t\n\x0c\r"
HEXD = "0123456789abcdefABCDEF"


def int_value(tok):
    """value of a documented integer spelling, None if the text is not one / outside i128"""
    s = tok
    sign = 1
    if s[:1] in ("+", "-"):
        sign = -1 if s[0] == "-" else 1
        s = s[1:]
    if not s or s[0] not in "0123456789":
        return None
    if s[:2] == "0x":
        radix, digits = 16, s[2:]
    elif s[:2] == "0b":
        radix, digits = 2, s[2:]
    elif s[0] == "0":
        radix, digits = 16, s
    else:
        radix, digits = 10, s
    alphabet = {16: HEXD, 10: "0123456789", 2: "01"}[radix]
    real = [c for c in digits if c != "_"]
    if not real or any(c not in alphabet for c in real):
        return None
    v = sign * int("".join(real), radix)
    if v < -(1 << 127) or v > (1 << 127) - 1:
        return None
    return v


def str_value(tok):
    if not tok or tok[0] not in '"“':
        return None
    out, i = [], 1
    while i < len(tok):
        c = tok[i]
        if c == "\\":
            if i + 1 >= len(tok):
                return None
            e = tok[i + 1]
            m = {"\\": "\\", '"': '"', "n": "\n", "r": "\r", "t": "\t"}
            if e not in m:
                return None
            out.append(m[e])
            i += 2
            continue
        if c in '"”':
            return "".join(out) if i == len(tok) - 1 else None
        out.append(c)
        i += 1
    return None


def bits_value(tok):
    if len(tok) < 2 or tok[0] != "|" or tok[-1] != "|":
        return None
    out = []
    for c in tok[1:-1]:
        if c in HEXD:
            out.append(format(int(c, 16), "04b"))
        elif c in WS:
            continue
        elif c == ".":
            out.append("0")
        elif c == "x":
            out.append("1")
        else:
            return None
    return "".join(out)


def check_lex(text, out_lines):
    """reasons why the observed token stream contradicts the specification (empty = it agrees)"""
    raw = text.encode()
    why = []
    toks = [l.split(" ") for l in out_lines if l.startswith("TOK ")]
    if not toks:
        return ["no tokens reported"]
    pos = 0
    for t in toks:
        kind, a, b = t[1], int(t[2]), int(t[3])
        if a != pos:
            why.append("token %s starts at %d, previous one ended at %d" % (kind, a, pos))
        if kind == "err":
            run = raw[a:].decode(errors="replace")
            j = 0
            while j < len(run) and run[j] not in WS:
                j += 1
            if int_value(run[:j]) is not None:
                why.append("valid integer spelling %r rejected" % run[:j])
            return why
        if kind == "eof":
            if not (a == b == len(raw)):
                why.append("EndOfInput at %d..%d of %d bytes" % (a, b, len(raw)))
            return why
        if b <= a:
            why.append("token %s is empty (%d..%d)" % (kind, a, b))
        try:
            s = raw[a:b].decode()
        except UnicodeDecodeError:
            why.append("token %s %d..%d is not on char boundaries" % (kind, a, b))
            return why
        if kind in ("word", "ws", "comment"):
            if (int(t[4]), int(t[5])) != (a, b):
                why.append("%s token text %s..%s differs from the consumed range %d..%d" % (kind, t[4], t[5], a, b))
            if kind == "ws" and any(c not in WS for c in s):
                why.append("whitespace token %r holds other characters" % s)
            if kind == "word" and any(c in WS for c in s):
                why.append("word %r holds whitespace" % s)
            if kind == "word" and int_value(s) is not None:
                why.append("integer spelling %r read as a word" % s)
        elif kind == "int":
            v = int_value(s)
            if v is None:
                why.append("%r is not an integer spelling but was read as %s" % (s, t[4]))
            elif v != int(t[4]):
                why.append("%r denotes %d but was read as %s" % (s, v, t[4]))
        elif kind == "real":
            try:
                v = float(s.replace("_", ""))
                bits = struct.unpack("<Q", struct.pack("<d", v))[0]
                if "%016x" % bits != t[4]:
                    why.append("%r is %016x as a double but was read as %s" % (s, bits, t[4]))
                if "." not in s:
                    why.append("%r has no `.` but was read as a real" % s)
            except ValueError:
                why.append("%r is not a decimal real but was read as one" % s)
        elif kind == "str":
            v = str_value(s)
            got = bytes.fromhex(t[4].rstrip("-")).decode(errors="replace")
            if v is None or v != got:
                why.append("string literal %r decodes to %r, expected %r" % (s, got, v))
        elif kind == "bits":
            v = bits_value(s)
            if v is None or v != t[4].rstrip("-"):
                why.append("bit-string literal %r read as %s, expected %s" % (s, t[4], v))
        else:
            why.append("unexpected literal kind %s" % kind)
        pos = b
    return why


def token_location(text, a):
    """(line, col, line_start_byte, line_end_byte) of the token starting at byte a: lines end at \\n or \\r,
    only \\n counts lines, the column counts characters"""
    chars = list(text)
    offs = [0]
    for c in chars:
        offs.append(offs[-1] + len(c.encode()))
    t = offs.index(a)
    line = sum(1 for c in chars[:t] if c == "\n")
    ls = t
    while ls > 0 and chars[ls - 1] not in "\n\r":
        ls -= 1
    le = t
    while le < len(chars) and chars[le] not in "\n\r":
        le += 1
    return line, t - ls, offs[ls], offs[le]
