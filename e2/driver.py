"""Run E2 lemma sets for a property: both overflow flavours, replay of counterexamples, part result."""
import json, os, re, sys, time, hashlib
sys.path.insert(0, os.path.dirname(os.path.dirname(os.path.abspath(__file__))))
from lib.common import *
from e2.session import executor
from e2.lemma import LemmaSet

REPLAY_SRC = os.path.join(VERIF, "replay")
REPLAY_TARGET = os.path.join(CACHE, "replay-target")


_replayer_built = {}


def build_replayer():
    import shutil
    if "ok" in _replayer_built:
        return _replayer_built["ok"]
    src = REPLAY_SRC
    if REPO != "/repo":
        # development aid (VERIF_REPO): a private copy of the replayer crate pointing at that tree
        src = os.path.join(CACHE, "replay-src")
        shutil.rmtree(src, ignore_errors=True)
        shutil.copytree(REPLAY_SRC, src, ignore=shutil.ignore_patterns("target"))
        ct = open(os.path.join(src, "Cargo.toml")).read().replace('path = "/repo"', 'path = "%s"' % REPO)
        open(os.path.join(src, "Cargo.toml"), "w").write(ct)
    shutil.copyfile(os.path.join(REPO, "Cargo.lock"), os.path.join(src, "Cargo.lock"))
    for rel in (False, True):
        cmd = ["cargo", "build", "--offline"] + (["--release"] if rel else [])
        rc, out = run(cmd, cwd=src, timeout=1200, env={"CARGO_TARGET_DIR": REPLAY_TARGET})
        if rc != 0:
            return False, out[-1500:]
    _replayer_built["ok"] = (True, "")
    return True, ""


def run_scenario(lines, release):
    os.makedirs(os.path.join(CACHE, "scenarios"), exist_ok=True)
    h = hashlib.sha1("\n".join(lines).encode()).hexdigest()[:12]
    p = os.path.join(CACHE, "scenarios", h + ".txt")
    open(p, "w").write("\n".join(lines) + "\n")
    exe = os.path.join(REPLAY_TARGET, "release" if release else "debug", "xeh-replay")
    rc, out = run([exe, p], timeout=60)
    return rc, out


def observe(out):
    """Parse replayer output into a dict."""
    obs = {"results": [], "cells": [], "depth": None, "raw": out[-1500:], "dumps": [], "raw_lines": out.splitlines()}
    ndump = 0
    for ln in out.splitlines():
        if ln.startswith("DEPTH "):
            ndump += 1
            obs["dumps"].append([])
            if ndump == 2:
                obs["first_cells"] = obs["cells"]
                obs["cells"] = []
        if ln.startswith("RESULT "):
            obs["results"].append(ln[7:])
        elif ln.startswith("DEPTH "):
            obs["depth"] = int(ln[6:])
        elif ln.startswith("CELL "):
            parts = ln.split(" ", 3)
            txt = parts[3] if len(parts) > 3 else ""
            if parts[2] == "real":
                bits, _, dbg = txt.partition(" ")
                obs["cells"].append(("real", bits, dbg))
            else:
                obs["cells"].append((parts[2], txt, txt))
            if obs["dumps"]:
                obs["dumps"][-1].append(obs["cells"][-1])
        elif ln.startswith("ERROR "):
            obs.setdefault("errors", []).append(ln[6:])
        elif ln.startswith("VAR "):
            obs.setdefault("vars", []).append(ln[4:])
        elif ln.startswith("IP "):
            obs.setdefault("ips", []).append(int(ln[3:]))
    return obs


def contradicts(expect, obs):
    """Does the observation contradict the expectation (i.e. is the violation reproduced)?
    expect: list of ('no_panic',) | ('last_result_in', [prefixes]) | ('top', type, text) | ('depth', n)
            | ('top_in', [(type,text)...]) | ('err_mentions_one_of', [texts])"""
    why = []
    last = obs["results"][-1] if obs["results"] else None
    for e in expect:
        if e[0] == "no_panic":
            if any(r.startswith("panic") for r in obs["results"]):
                why.append("panicked: " + [r for r in obs["results"] if r.startswith("panic")][0])
        elif e[0] == "last_result_in":
            if last is None or not any(last.startswith(p) for p in e[1]):
                why.append("result %r not in %s" % (last, e[1]))
        elif e[0] == "lex_spec":
            from e2.lexspec import check_lex
            text = bytes.fromhex(e[1]).decode() if e[1] != "-" else ""
            if any(r.startswith("panic") for r in obs["results"]):
                why.append("lexer panicked on %r" % text)
            else:
                why += check_lex(text, obs["raw_lines"])
        elif e[0] == "top_str_is":
            from e2.strmodel import unescape_rust
            top = obs["cells"][0] if obs["cells"] else None
            got = unescape_rust(top[1]) if top and top[0] == "str" else None     # the cell is printed with Rust's Debug escapes
            if top is None or top[0] != "str" or (got is not None and got != e[1]):
                why.append("top of stack %r is not the string %r" % (top, e[1]))
        elif e[0] == "first_cells_are":
            got = [(c[0], c[1]) for c in obs.get("first_cells", [])]
            if got != [tuple(x) for x in e[1]]:
                why.append("first stack dump (top first) is %s, expected %s" % (got, e[1]))
        elif e[0] == "errors_equal":
            errs = obs.get("errors", [])
            a_, b_ = e[1]
            if len(errs) <= max(a_, b_) or errs[a_] != errs[b_]:
                why.append("error reports %d and %d differ: %r" % (a_, b_, errs))
        elif e[0] == "cells_are":
            got = [(c[0], c[1]) for c in obs["cells"]]
            if got != [tuple(x) for x in e[1]]:
                why.append("stack (top first) is %s, expected %s" % (got, e[1]))
        elif e[0] == "print_int_spec":
            top = obs["cells"][0] if obs["cells"] else None
            if top is None or top[0] != "int" or top[1] != str(e[1]):
                why.append("the integer %d prints as %r" % (e[1], top))
        elif e[0] == "print_bits_spec":
            from e2.lexspec import bits_value
            top = obs["cells"][0] if obs["cells"] else None
            got = bits_value(top[1]) if top and top[0] == "bitstr" else None
            if got != e[1]:
                why.append("the bit-string %s prints as %r which reads back as %s" % (e[1], top, got))
        elif e[0] == "tokloc_spec":
            from e2.lexspec import token_location
            text = bytes.fromhex(e[2]).decode()
            exp = token_location(text, int(e[1]))
            got = [l for l in obs["raw_lines"] if l.startswith("TOKLOC ")]
            if any(r.startswith("panic") for r in obs["results"]):
                why.append("token_location panicked")
            elif not got or got[0] != "TOKLOC %d %d %d %d" % exp:
                why.append("token_location gave %r, expected line %d col %d line-bytes %d..%d" % ((got[0] if got else None,) + exp))
        elif e[0] == "top_in":
            top = obs["cells"][0] if obs["cells"] else None
            if top is None or not any(top[0] == t and top[1] == x for t, x in e[1]):
                why.append("top of stack %r not in %s" % (top, e[1]))
        elif e[0] == "second_in":
            c2 = obs["cells"][1] if len(obs["cells"]) > 1 else None
            if c2 is None or not any(c2[0] == t and c2[1] == x for t, x in e[1]):
                why.append("second stack cell %r not in %s" % (c2, e[1]))
        elif e[0] == "top_real":
            top = obs["cells"][0] if obs["cells"] else None
            if top is None or top[0] != "real" or top[1] != e[1]:
                why.append("top of stack %r is not real %s" % (top, e[1]))
        elif e[0] == "top_real_nan":
            top = obs["cells"][0] if obs["cells"] else None
            okn = False
            if top and top[0] == "real":
                b = int(top[1], 16)
                okn = (b >> 52) & 0x7ff == 0x7ff and (b & ((1 << 52) - 1)) != 0
            if not okn:
                why.append("top of stack %r is not a NaN" % (top,))
        elif e[0] == "top_type":
            top = obs["cells"][0] if obs["cells"] else None
            if top is None or top[0] != e[1]:
                why.append("top of stack %r is not of type %s" % (top, e[1]))
        elif e[0] == "any_of":
            # satisfied if at least one alternative (a list of expectations) is not contradicted
            subs = [contradicts(alt, obs) for alt in e[1]]
            if all(subs):
                why.append("none of the allowed outcomes observed: %s" % subs)
        elif e[0] == "err_val_is_operand":
            # the error's reported value must be the Debug text of one of the operands (first stack dump)
            ops = obs.get("first_cells", [])
            m_ = re.search(r"val: (.*), msg:", last or "")
            if last is None or not last.startswith("err TypeErrorMsg") or m_ is None or not any(m_.group(1) == c_[2] for c_ in ops):
                why.append("error %r does not report one of the operands %s" % (last, ops))
        elif e[0] == "read_contract":
            # dumps[0] / dumps[-1]: (remain, offset) on top before / after; results[e[2]] is the word's result; e[1] = requested bits
            try:
                rem0, off0 = int(obs["dumps"][0][0][1]), int(obs["dumps"][0][1][1])
                rem1, off1 = int(obs["dumps"][-1][0][1]), int(obs["dumps"][-1][1][1])
                res = obs["results"][e[2]]
                n_ = int(e[1])
                if res.startswith("ok"):
                    if off1 - off0 != n_ or rem0 - rem1 != n_:
                        why.append("successful read of %d bits moved the offset by %d (remain by %d)" % (n_, off1 - off0, rem0 - rem1))
                elif res.startswith("err"):
                    if off1 != off0 or rem1 != rem0:
                        why.append("failing read (%s) moved the cursor: offset %d -> %d" % (res[:40], off0, off1))
            except Exception as ex_:
                why.append("could not evaluate read contract: %s" % ex_)
        elif e[0] in ("stack_at_most", "depth_at_most"):
            if obs["depth"] is None or obs["depth"] > e[1]:
                why.append("stack holds %r items, more than %d" % (obs["depth"], e[1]))
        elif e[0] == "error_col":
            errs = obs.get("errors", [])
            m_ = re.search(r"\\n(-*)\^", errs[-1]) if errs else None
            if m_ is None or len(m_.group(1)) != e[1]:
                why.append("error location column %s, expected %d: %s" % (len(m_.group(1)) if m_ else None, e[1], errs[-1][-120:] if errs else None))
        elif e[0] == "vars_equal":
            vs = obs.get("vars", [])
            a_, b_ = e[1]
            if len(vs) <= max(a_, b_) or vs[a_] != vs[b_]:
                why.append("variable observations %d and %d differ: %s" % (a_, b_, vs))
        elif e[0] == "stacks_equal":
            a_, b_ = e[1]
            ds = obs.get("dumps", [])
            if len(ds) <= max(a_, b_) or ds[a_] != ds[b_]:
                why.append("stack dumps %d and %d differ" % (a_, b_))
        elif e[0] == "depth":
            if obs["depth"] != e[1]:
                why.append("depth %r != %r" % (obs["depth"], e[1]))
        elif e[0] == "err_mentions_one_of":
            if last is None or not last.startswith("err") or not any(t in last for t in e[1]):
                why.append("error %r mentions none of %s" % (last, e[1]))
        elif e[0] == "results_same_kind":
            def kind_of(r):
                if r is None:
                    return None
                return " ".join(r.split(" ")[:2]) if r.startswith("err") else r.split(" ")[0]
            rs = [kind_of(obs["results"][i]) if i < len(obs["results"]) else None for i in e[1]]
            if len(set(rs)) != 1:
                why.append("outcome kinds differ: %s" % rs)
        elif e[0] == "results_equal":
            # e[1]: list of indices into obs['results'] that must be pairwise equal
            rs = [obs["results"][i] if i < len(obs["results"]) else None for i in e[1]]
            if len(set(rs)) != 1:
                why.append("results differ: %s" % rs)
        elif e[0] == "dumps_equal":
            dumps = re.findall(r"DUMP-BEGIN\n(.*?)DUMP-END", obs["raw_full"], re.S) if "raw_full" in obs else []
            a, b = e[1]
            if len(dumps) <= max(a, b) or dumps[a] != dumps[b]:
                why.append("state dumps %d and %d differ" % (a, b))
    return why


def match_known_e2(pid, lemma, what):
    for f in known_for(pid):
        m = f.get("match", {})
        if m.get("engine") != "e2":
            continue
        if "lemma_re" in m and not re.search(m["lemma_re"], lemma or ""):
            continue
        if "what_re" in m and not re.search(m["what_re"], what or ""):
            continue
        return f
    return None


E2_WORKERS = int(os.environ.get("VERIF_E2_WORKERS", str(max(1, min(NCPU - 2, 12)))))


def run_lemmas(ex, pid, tier, modules, only):
    """Run the lemma modules on executor ex, sharded over E2_WORKERS forked processes (lemma i goes to worker
    i % n; every worker walks the same run() code, so budgets and orders are identical). Returns a LemmaSet holding
    the merged results; ex.queries / solver_time / functions_executed / summaries_used are merged into ex."""
    import pickle, tempfile

    def fresh():
        L = LemmaSet(ex, pid)
        L.pid = pid
        if tier == "quick":
            L.time_box_deadline = PROCESS_T0 + QUICK_TIME_BOX_S
        else:
            L.cross_check = True            # thorough: a sample of the queries is also given to cvc5
        return L
    n = E2_WORKERS
    if n <= 1:
        L = fresh()
        for mod in modules:
            mod.run(L, tier, only)
        return L
    tmpd = tempfile.mkdtemp(prefix="shards-", dir=CACHE)
    pids = []
    sys.stdout.flush()
    sys.stderr.flush()
    for k in range(n):
        c = os.fork()
        if c == 0:
            rc = 0
            try:
                L = fresh()
                L.shard = (k, n)
                for mod in modules:
                    mod.run(L, tier, only)
                obs = [(o.lemma, o.what, o.verdict, o.model, o.path, o.detail, getattr(o, "scenario", None)) for o in L.obligations]
                out = {"obligations": obs, "undecided": L.undecided, "samples": L.samples, "paths": L.paths, "skipped": L.skipped,
                       "selftest_traces": getattr(L, "selftest_traces", 0), "queries": ex.queries, "solver_time": ex.solver_time,
                       "functions": set(ex.functions_executed), "summaries": set(ex.summaries_used),
                       "cross": getattr(L, "cross_stats", None)}
                with open(os.path.join(tmpd, "%d.pkl" % k), "wb") as f:
                    pickle.dump(out, f)
            except BaseException as e:
                rc = 3
                try:
                    import traceback
                    with open(os.path.join(tmpd, "%d.err" % k), "w") as f:
                        f.write("%s: %s\n%s" % (type(e).__name__, e, traceback.format_exc()))
                except Exception:
                    pass
            finally:
                sys.stdout.flush()
                os._exit(rc)
        pids.append(c)
    for c in pids:
        os.waitpid(c, 0)
    from e2.lemma import Obligation
    M = fresh()
    for k in range(n):
        pf = os.path.join(tmpd, "%d.pkl" % k)
        if not os.path.exists(pf):
            err = open(os.path.join(tmpd, "%d.err" % k)).read()[-600:] if os.path.exists(os.path.join(tmpd, "%d.err" % k)) else "worker died"
            M.undecided.append(("worker %d/%d" % (k, n), "ENGINE ERROR in a lemma worker: " + err))
            continue
        out = pickle.load(open(pf, "rb"))
        for (lem, what, verdict, model, path, detail, scen) in out["obligations"]:
            ob = Obligation(lem, what, verdict, model=model, path=path, detail=detail)
            if scen is not None:
                ob.scenario = scen
            M.obligations.append(ob)
        M.undecided += out["undecided"]
        M.samples += out["samples"]
        M.paths += out["paths"]
        M.skipped += out["skipped"]
        M.selftest_traces = getattr(M, "selftest_traces", 0) + out["selftest_traces"]
        ex.queries += out["queries"]
        ex.solver_time += out["solver_time"]
        ex.functions_executed |= out["functions"]
        ex.summaries_used |= out["summaries"]
        if out.get("cross"):
            cs = M.__dict__.setdefault("cross_stats", {"agree": 0, "disagree": 0, "cvc5_unknown": 0})
            for k_, v_ in out["cross"].items():
                cs[k_] = cs.get(k_, 0) + v_
    M.samples.sort(key=lambda s_: str(s_.get("lemma", "")))
    import shutil
    shutil.rmtree(tmpd, ignore_errors=True)
    return M


def e2_run(pid, tier, modules, flavours=("on", "off"), only=None, assumptions=None, bounds="", loop_bound=8):
    """modules: list of lemma modules (each has run(L, tier, only)). Returns part-result dict."""
    t0 = time.time()
    violations, knowns, problems = [], [], []
    paths = obligations = discharged = 0
    samples, functions, summaries = [], set(), set()
    solver_s = 0.0
    queries = 0
    replays = 0
    cross = {}
    skipped = []
    per_flavour = {}
    seen_sig = set()
    okb = None
    for fl in flavours:
        try:
            ex = executor(fl, loop_bound=loop_bound)
        except Exception as e:
            problems.append(("mir-" + fl, "MIR dump/parse failed: %s" % e))
            continue
        L = run_lemmas(ex, pid, tier, modules, only)
        sm = L.summary()
        replays += getattr(L, "selftest_traces", 0)
        per_flavour["overflow-checks=" + fl] = dict(sm, solver_queries=ex.queries, solver_time_s=round(ex.solver_time, 2),
                                                     mir=os.path.basename(ex.mir_path))
        paths += sm["paths"]
        obligations += sm["obligations"]
        discharged += sm["discharged"]
        solver_s += ex.solver_time
        queries += ex.queries
        functions |= ex.functions_executed
        summaries |= ex.summaries_used
        if fl == flavours[0]:
            samples += L.samples[:30]
        for (lem, why) in L.undecided:
            problems.append(("%s[%s]" % (lem, fl), why))
        skipped += ["%s[%s]" % (x, fl) for x in L.skipped]
        if getattr(L, "cross_stats", None):
            for k_, v_ in L.cross_stats.items():
                cross[k_] = cross.get(k_, 0) + v_
        for ob in L.obligations:
            if ob.verdict != "violated":
                continue
            sig = (ob.lemma, ob.what)
            if sig in seen_sig:
                continue
            seen_sig.add(sig)
            rec = {"property": pid, "engine": "e2", "lemma": ob.lemma, "check": ob.what, "flavour": fl,
                   "model": {k: (str(v) if isinstance(v, int) and abs(v) > 1 << 62 else v) for k, v in list((ob.model or {}).items())[:40]},
                   "path": ob.path, "detail": ob.detail}
            sc = getattr(ob, "scenario", None)
            kf = match_known_e2(pid, ob.lemma, ob.what)
            if sc is None:
                if kf:
                    knowns.append((kf, rec))
                else:
                    problems.append(("%s[%s]" % (ob.lemma, fl), "counterexample without a replay scenario: %s | model %s" % (ob.what, str(rec["model"])[:300])))
                continue
            if okb is None:
                okb, msg = build_replayer()
                if not okb:
                    problems.append(("replayer", "build failed: " + msg))
            if not okb:
                continue
            confirmed = []
            for rel in (False, True):
                rc, out = run_scenario(sc["lines"], rel)
                obs = observe(out)
                obs["raw_full"] = out
                why = contradicts(sc["expect"], obs)
                replays += 1
                if why:
                    confirmed.append(("release" if rel else "dev", why))
            rec["scenario"] = sc["lines"]
            rec["expect"] = sc["expect"]
            rec["observed"] = confirmed
            if not confirmed:
                problems.append(("%s[%s]" % (ob.lemma, fl), "counterexample did not reproduce on the real build: %s | scenario %s" % (ob.what, sc["lines"])))
                continue
            if kf:
                knowns.append((kf, rec))
            else:
                os.makedirs(REPLAYS, exist_ok=True)
                name = re.sub(r"[^A-Za-z0-9]+", "_", "%s-%s" % (pid, ob.lemma))[:60] + "-" + hashlib.sha1(ob.what.encode()).hexdigest()[:6]
                rp = os.path.join(REPLAYS, name + ".json")
                json.dump(rec, open(rp, "w"), indent=1)
                rec["replay"] = rp
                violations.append(rec)
    fn_list = sorted(f for f in functions if not f.startswith(("const ", "promoted")))
    detail = {
        "flavours": per_flavour,
        "solver_queries": queries,
        "solver_time_s": round(solver_s, 2),
        "functions_executed_as_real_MIR": len(fn_list),
        "summaries_used (trusted base)": sorted(summaries)[:120],
        "engine": "mirsym (MIR -> z3 %s), loop unwinding bound %d, sound by refusal" % (__import__("z3").get_version_string(), loop_bound),
        "replayed_scenarios": replays,
        "lemmas_skipped_by_quick_time_box": skipped,
        "second_solver_cvc5_on_sampled_queries": cross or "not run in this tier",
    }
    return {
        "name": "E2/mirsym", "engine": "e2",
        "states": paths, "transitions": discharged, "traces": replays,
        "samples": samples, "violations": violations, "knowns": knowns, "problems": problems,
        "functions": fn_list[:150], "bounds": bounds, "assumptions": assumptions or [],
        "solver_s": solver_s, "detail": detail,
    }


def replay_file(path):
    rec = json.load(open(path))
    ok, msg = build_replayer()
    if not ok:
        say("replayer build failed: " + msg)
        return 2
    bad = False
    for rel in (False, True):
        rc, out = run_scenario(rec["scenario"], rel)
        obs = observe(out)
        obs["raw_full"] = out
        why = contradicts([tuple(e) for e in rec["expect"]], obs)
        say("%s: %s" % ("release" if rel else "dev", why or "as expected"))
        say(out.strip()[-800:])
        bad = bad or bool(why)
    return 1 if bad else 0
