"""Lemma framework on top of mirsym: run a real function from a symbolic pre-state, discharge
post-conditions per path with z3, collect counterexamples as concrete models."""
import re, time, traceback
import z3
from e2.values import *
from e2.symex import run_function, veq, Outcome, Executor


class Obligation:
    def __init__(self, lemma, what, verdict, model=None, path=None, detail=None):
        self.lemma, self.what, self.verdict, self.model, self.path, self.detail = lemma, what, verdict, model, path, detail


class LemmaSet:
    """Collects results of many lemmas over one executor."""

    def __init__(self, ex, name):
        self.ex = ex
        self.name = name
        self.paths = 0
        self.obligations = []       # Obligation
        self.undecided = []         # (lemma, reason)
        self.samples = []
        self.t0 = time.time()
        self.cur = None
        self.query_timeout_ms = 60000
        self.lemma_time_budget = 420.0       # seconds of wall clock per lemma; exceeding it = not decided
        self.time_box_deadline = None        # quick tier: do not start lemmas after this instant
        self.skipped = []
        self.shard = None                    # (k, n): this process runs only the lemmas whose running number % n == k
        self._lemma_no = 0

    # ------------------------------------------------------------------ running lemmas
    def lemma(self, name, fn):
        """Run one lemma body; Unsupported => undecided (sound by refusal)."""
        no = self._lemma_no
        self._lemma_no += 1
        if self.shard is not None and no % self.shard[1] != self.shard[0]:
            return
        if self.time_box_deadline is not None and time.time() > self.time_box_deadline:
            self.skipped.append(name)
            return
        self.cur = name
        n0 = len(self.obligations)
        p0 = self.paths
        t0 = time.time()
        self.ex.deadline = t0 + self.lemma_time_budget
        try:
            fn(self)
        except Unsupported as e:
            self.undecided.append((name, "UNSUPPORTED " + str(e)))
        except Exception as e:
            self.undecided.append((name, "ENGINE ERROR %s: %s\n%s" % (type(e).__name__, e, traceback.format_exc(limit=-4))))
        obs = self.obligations[n0:]
        if len(self.samples) < 60:
            self.samples.append({"engine": "e2", "lemma": name, "paths": self.paths - p0, "obligations": len(obs),
                                 "violated": sum(1 for o in obs if o.verdict == "violated"),
                                 "example_obligation": obs[0].what if obs else None, "time_s": round(time.time() - t0, 2)})
        self.cur = None

    def run(self, fname, args, pc=None, roots=None):
        f = self.fn(fname) if isinstance(fname, str) else fname
        outs = run_function(self.ex, f, args, pc, {"roots": roots or {}})
        self.paths += len(outs)
        return outs

    def fn(self, fname):
        ex = self.ex
        if fname in ex.funcs:
            return ex.funcs[fname]
        c = [v for n, v in ex.funcs.items() if (n.endswith("::" + fname) or n == fname or fname.endswith("::" + n)) and "verif_hooks" not in n and "tests::" not in n
             and not n.startswith(("const ", "promoted["))]
        if len(c) > 1:
            # prefer methods of State
            c2 = [x for x in c if "src/state.rs" in x.name and x.params and "state::State" in x.params[0][1]]
            if len(c2) == 1:
                c = c2
        if len(c) != 1:
            raise Unsupported("function %s: %d candidates %s" % (fname, len(c), [x.name for x in c][:4]))
        return c[0]

    # ------------------------------------------------------------------ obligations
    def require(self, o, cond, what, extra_pc=None, cex=None):
        """Path condition of outcome o entails cond?  cond: z3 Bool or Python bool.
        cex: model -> replay scenario {'lines': [...], 'expect': [...]} for the native runner."""
        self._budget_check()
        if isinstance(cond, bool):
            cond = z3.BoolVal(cond)
        pc = list(o.st.pc) + list(extra_pc or [])
        s = z3.Solver()
        s.set("timeout", self.query_timeout_ms)
        s.add(*pc)
        s.add(*self.ex.tc.assumptions)
        s.add(z3.Not(cond))
        t0 = time.time()
        r = s.check()
        if r == z3.unknown:
            s = z3.Solver()                 # one retry, fresh solver, twice the time
            s.set("timeout", 2 * self.query_timeout_ms)
            s.add(*pc)
            s.add(*self.ex.tc.assumptions)
            s.add(z3.Not(cond))
            r = s.check()
        self.ex.queries += 1
        self.ex.solver_time += time.time() - t0
        self._cross_check(s, r, what)
        if r == z3.unsat:
            self.obligations.append(Obligation(self.cur, what, "holds"))
            return True
        if r == z3.sat:
            m = s.model()
            ob = Obligation(self.cur, what, "violated", model=model_dict(m), path=[str(z3.simplify(c))[:200] for c in o.st.pc[-12:]],
                            detail="%s %s" % (o.kind, o.msg or ""))
            if cex is not None:
                try:
                    ob.scenario = cex(m)
                except Exception as e:
                    ob.scenario = None
                    ob.detail += " [scenario builder failed: %s]" % e
            self.obligations.append(ob)
            return False
        self.obligations.append(Obligation(self.cur, what, "unknown", detail=s.reason_unknown()))
        self.undecided.append((self.cur, "solver unknown on: " + what))
        return False

    def fail(self, o, what, cex=None):
        """An outcome that must not exist (e.g. a panic path): feasible by construction -> violated, with a model."""
        return self.require(o, False, what, cex=cex)

    def feasible(self, o, cond=None):
        s = z3.Solver()
        s.set("timeout", self.query_timeout_ms)
        s.add(*o.st.pc)
        s.add(*self.ex.tc.assumptions)
        if cond is not None:
            s.add(cond)
        return s.check() == z3.sat

    def _cross_check(self, solver, verdict, what):
        """second opinion on a sample of the queries (the first two obligations of every lemma, at most 60 per set,
        thorough tier or VERIF_CROSSCHECK=1): the same SMT-LIB text is given to cvc5; a different verdict makes the lemma
        undecided. Counts go to the evidence."""
        import os, subprocess, tempfile
        if not getattr(self, "cross_check", False) and not os.environ.get("VERIF_CROSSCHECK"):
            return
        st = self.__dict__.setdefault("cross_stats", {"agree": 0, "disagree": 0, "cvc5_unknown": 0})
        per = self.__dict__.setdefault("_cross_per_lemma", {})
        if per.get(self.cur, 0) >= 2 or sum(st.values()) >= 60 or verdict not in (z3.sat, z3.unsat):
            return
        per[self.cur] = per.get(self.cur, 0) + 1
        try:
            txt = "(set-logic ALL)\n" + solver.to_smt2()
            with tempfile.NamedTemporaryFile("w", suffix=".smt2", delete=False) as f:
                f.write(txt)
                fn = f.name
            p = subprocess.run(["cvc5", "--lang", "smt2", "--tlimit", "20000", fn], capture_output=True, text=True, timeout=40)
            os.unlink(fn)
            out = p.stdout.strip().splitlines()
            ans = out[0].strip() if out else "unknown"
        except Exception:
            ans = "unknown"
        if ans not in ("sat", "unsat") or "(error" in (p.stdout + p.stderr if 'p' in dir() else ""):
            st["cvc5_unknown"] += 1
        elif ans == str(verdict):
            st["agree"] += 1
        else:
            st["disagree"] += 1
            self.undecided.append((self.cur, "SOLVER DISAGREEMENT: z3 says %s, cvc5 says %s on: %s" % (verdict, ans, what)))

    def _budget_check(self):
        """the per-lemma wall-clock budget also covers the obligation phase (pairwise comparisons can be many)"""
        dl = getattr(self.ex, "deadline", None)
        if dl is not None and time.time() > dl + 30:
            raise Unsupported("lemma time budget exceeded while discharging obligations")

    def jointly_feasible(self, o1, o2):
        self._budget_check()
        s = z3.Solver()
        s.set("timeout", self.query_timeout_ms)
        s.add(*o1.st.pc)
        s.add(*o2.st.pc)
        s.add(*self.ex.tc.assumptions)
        self.ex.queries += 1
        return s.check() == z3.sat

    def witness(self, outs, pred, what):
        """Vacuity guard: at least one outcome satisfying pred (a Python predicate) is feasible."""
        for o in outs:
            if pred(o) and self.feasible(o):
                self.obligations.append(Obligation(self.cur, "reachability witness: " + what, "holds"))
                return True
        self.undecided.append((self.cur, "VACUOUS: no feasible path for: " + what))
        return False

    # ------------------------------------------------------------------ value helpers
    def field(self, v, sname, fname, ty=None):
        """Named field of a crate struct value (lazy materialisation with the declared type)."""
        ex = self.ex
        order = ex.defs.structs[sname]
        idx = [f for f, _ in order].index(fname)
        fty = ty or FIELD_TY.get((sname, fname)) or order[idx][1]
        return ex.step_get(None, v, ("f", idx, fty))

    def set_field(self, v, sname, fname, val):
        order = self.ex.defs.structs[sname]
        idx = [f for f, _ in order].index(fname)
        v.fields[idx] = val

    def deref(self, r):
        return self.ex.get_at(None, r.box, r.path)

    def state_of(self, o, name="_1"):
        """The State value behind the &mut State argument of the outermost function in outcome o."""
        raise NotImplementedError

    def sym(self, ty, name):
        return mk_sym(self.ex.tc, ty, name)

    def cell(self, name):
        return mk_sym(self.ex.tc, "cell::Cell", name)

    def payload(self, c, idx, ty):
        """payload field of a concretised enum value, materialising lazily-untouched parts"""
        return self.ex.summ.payload(c, idx, ty)

    def is_variant(self, v, variant):
        """z3 condition that enum value v is `variant` (for concretised or symbolic enums)."""
        if v.variant is not None:
            return z3.BoolVal(v.variant == variant)
        return v.discr == z3.BitVecVal(self.ex.enum_index(v.ty, variant), 64)

    def result_kind(self, o):
        """('Ok', payload) | ('Err', xerr_variant, xerr_value) for a returned Result"""
        v = o.value
        if not isinstance(v, Enum) or v.variant is None:
            raise Unsupported("result is not a concretised enum: %r" % (v,))
        if v.variant == "Ok":
            return ("Ok", v.payload.fields.get(0) if v.payload else None)
        e = v.payload.fields[0]
        if isinstance(e, Enum) and e.variant is None:
            raise Unsupported("error value not concretised")
        return ("Err", e.variant, e)

    # ------------------------------------------------------------------ reporting
    def summary(self):
        viol = [o for o in self.obligations if o.verdict == "violated"]
        return {
            "paths": self.paths,
            "obligations": len(self.obligations),
            "discharged": sum(1 for o in self.obligations if o.verdict == "holds"),
            "violated": len(viol),
            "undecided": len(self.undecided),
        }


# MIR-level types of State fields (source types use aliases)
FIELD_TY = {
    ("State", "dict"): "std::vec::Vec<state::DictEntry>", ("State", "heap"): "std::vec::Vec<cell::Cell>",
    ("State", "code"): "std::vec::Vec<opcodes::Opcode>", ("State", "debug_map"): "std::vec::Vec<arcstr::Substr>",
    ("State", "data_stack"): "std::vec::Vec<cell::Cell>", ("State", "return_stack"): "std::vec::Vec<state::Frame>",
    ("State", "flow_stack"): "std::vec::Vec<state::Flow>", ("State", "loops"): "std::vec::Vec<state::Loop>",
    ("State", "special"): "std::vec::Vec<state::Special>", ("State", "ctx"): "state::Context",
    ("State", "nested"): "std::vec::Vec<state::Context>", ("State", "insn_meter"): "usize",
    ("State", "insn_limit"): "std::option::Option<usize>", ("State", "heap_limit"): "std::option::Option<usize>",
    ("State", "stack_limit"): "std::option::Option<usize>",
    ("State", "reverse_log"): "std::option::Option<std::vec::Vec<state::ReverseStep>>",
    ("State", "bitstr_mod"): "bitstr_ext::BitstrState", ("State", "input"): "std::vec::Vec<lex::Lex>",
    ("State", "sources"): "std::vec::Vec<(arcstr::ArcStr, arcstr::ArcStr)>",
    ("State", "last_error"): "std::option::Option<state::ErrorContext>", ("State", "last_token"): "std::option::Option<arcstr::Substr>",
    ("State", "stdout"): "std::option::Option<std::string::String>", ("State", "about_to_stop"): "bool", ("State", "d2"): "cell::CellRef",
    ("Context", "mode"): "state::ContextMode",
    ("Loop", "items"): "cell::Cell", ("Loop", "range"): "std::ops::Range<isize>",
    ("Frame", "locals"): "rpds::Vector<cell::Cell>",
    ("Bitstr", "range"): "std::ops::Range<usize>", ("Bitstr", "data"): "std::rc::Rc<std::borrow::Cow<'static, [u8]>>",
}


def model_dict(m):
    d = {}
    for decl in m.decls():
        try:
            v = m[decl]
            if z3.is_bv_value(v):
                d[decl.name()] = v.as_long()
            elif z3.is_true(v) or z3.is_false(v):
                d[decl.name()] = bool(z3.is_true(v))
            elif z3.is_fp(v) or z3.is_fp_value(v):
                d[decl.name()] = str(v)
            else:
                s = str(v)
                if len(s) < 80:
                    d[decl.name()] = s
        except Exception:
            pass
    return d


def word_map(ex, loader):
    """{word: (function name, immediate)} read off the MIR of a `load`-style function. Closures are
    identified by position: the k-th closure passed to defword is `<loader>::{closure#k}` (macro-expanded
    closures share their source span, so the span is not a usable key)."""
    f = ex.funcs[loader] if loader in ex.funcs else [v for n, v in ex.funcs.items() if n.endswith(loader) and not n.startswith(("const ", "promoted"))][0]
    out = {}
    span_seen = {}
    by_span = {}
    k = 0
    while "%s::{closure#%d}" % (f.name, k) in ex.funcs:
        cf = ex.funcs["%s::{closure#%d}" % (f.name, k)]
        msp = re.search(r"(\{closure@[^}]*\})", cf.params[0][1]) if cf.params else None
        if msp:
            by_span.setdefault(msp.group(1), []).append(cf.name)
        k += 1
    for bname in sorted(f.blocks, key=lambda b: int(b[2:])):
        b = f.blocks[bname]
        t = b.term
        if not t or t[0] != "call":
            continue
        callee = t[2]
        if not re.search(r"(defword|def_immediate)$", callee):
            continue
        args = t[3]
        if len(args) < 3:
            continue
        local_def = {}
        for st in b.stmts:
            if st[0] == "assign" and st[1][0] == "local":
                local_def[st[1][1]] = st[2]

        def const_of(op):
            if op[0] == "const":
                return op[1]
            if op[0] in ("move", "copy") and op[1][0] == "local":
                rv = local_def.get(op[1][1])
                if rv is None:
                    return None
                if rv[0] == "use" and rv[1][0] == "const":
                    return rv[1][1]
                if rv[0] == "cast" and rv[1][0] == "const":
                    return rv[1][1]
            return None
        w = const_of(args[1])
        c = const_of(args[2])
        mc = re.match(r"ZeroSized: (\{closure@[^}]*\})", c) if c is not None else None
        if mc:
            # k-th use of this source span <-> k-th closure body (by closure number) with that span
            span = mc.group(1)
            k = span_seen.get(span, 0)
            span_seen[span] = k + 1
            bodies = by_span.get(span, [])
            tgt = bodies[k] if k < len(bodies) else None
        else:
            tgt = c
        if w is None or tgt is None or not w.startswith('"'):
            continue
        out[w[1:-1]] = (tgt, callee.endswith("def_immediate"))
    return out


def word_call(L, target, xs):
    """(function, argument list) to invoke a word's native implementation on the state reference xs"""
    fn = L.fn(target)
    if "{closure#" in fn.name:
        return fn, [FnVal("env:" + fn.name), xs]
    return fn, [xs]
