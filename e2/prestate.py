"""Symbolic pre-states of the interpreter for lemmas, with the representation invariants assumed."""
import z3
from e2.values import *

CELL_VARIANTS = ["Nil", "Flag", "Int", "Real", "Str", "Vector", "Map", "Fun", "Bitstr", "AnyRc", "WithTag"]
BIG = 1 << 40


class Pre:
    """xs: &mut State argument; S: the State record; pc: assumed invariants; handles to named parts."""

    def __init__(self, L, name="xs", stack=None, recording=None, limits=False):
        self.L = L
        self.xs = L.sym("&mut state::State", name)
        self.S = L.deref(self.xs)
        self.pc = []
        S = self.S
        self.ds = L.field(S, "State", "data_stack")
        self.n0 = self.ds.prefix[1]
        if stack is not None:
            self.ds.items = list(stack)
        self.ctx = L.field(S, "State", "ctx")
        self.ds_len = L.field(self.ctx, "Context", "ds_len")
        self.ip = L.field(self.ctx, "Context", "ip")
        # invariants: sane sizes, context marks inside their stacks
        self.pc.append(z3.ULE(self.n0, z3.BitVecVal(BIG, 64)))
        self.pc.append(z3.ULE(self.ds_len.t, self.ds.len_term()))
        self.pc.append(z3.ULE(self.ip.t, z3.BitVecVal(BIG, 64)))
        if recording is not None:
            rl = L.field(S, "State", "reverse_log")
            if recording:
                rl.variant = "Some"
            else:
                rl.variant = "None"
        for v in ("heap", "code", "return_stack", "loops", "special", "flow_stack", "nested", "debug_map", "dict"):
            vec = L.field(S, "State", v)
            self.pc.append(z3.ULE(vec.prefix[1], z3.BitVecVal(BIG, 64)))
        # the variable heap is random access: cells are addressed by CellRef index
        self.heap = L.field(S, "State", "heap")
        self.heap.slots = {}
        # context marks: the symbolic bottom part of each auxiliary stack is exactly the part hidden by the
        # current context; what a lemma puts on top explicitly is the visible part
        for fld, vec in (("rs_len", "return_stack"), ("ls_len", "loops"), ("ss_ptr", "special"), ("fs_len", "flow_stack")):
            mark = L.field(self.ctx, "Context", fld)
            self.pc.append(mark.t == L.field(S, "State", vec).prefix[1])
        # the binary-parsing variables live in distinct heap cells (allocated one after another by load)
        bm = L.field(S, "State", "bitstr_mod")
        refs = []
        for f in ("big_endian", "offset", "input", "stash", "output", "output_len"):
            cr = L.field(bm, "BitstrState", f, "cell::CellRef")
            refs.append(L.ex.step_get(None, cr, ("f", 0, "usize")).t)
        self.cellrefs = dict(zip(("big_endian", "offset", "input", "stash", "output", "output_len"), refs))
        self.pc.append(z3.Distinct(*refs))
        self.pc.append(z3.ULE(L.field(S, "State", "insn_meter").t, z3.BitVecVal(BIG, 64)))

    def roots(self):
        return {"xs": self.xs}

    def vec(self, name):
        return self.L.field(self.S, "State", name)

    def visible_depth(self):
        return self.ds.len_term() - self.ds_len.t


def final_state(L, o):
    xs = o.st.ghost["roots"]["xs"]
    return L.ex.get_at(None, xs.box, xs.path)


def variant_on_path(L, o, cell, variants=CELL_VARIANTS):
    """Which variant the (initially symbolic) enum value `cell` has on path o; None if undetermined."""
    if cell.variant is not None:
        return cell.variant
    s = z3.Solver()
    s.add(*o.st.pc)
    for v in variants:
        d = L.ex.enum_index(cell.ty, v)
        if s.check(cell.discr != z3.BitVecVal(d, 64)) == z3.unsat:
            return v
    return None


def int_payload(name):
    return z3.BitVec(name + ".Int.0", 128)


def real_payload(name):
    return z3.FP(name + ".Real.0", z3.Float64())


def flag_payload(name):
    return z3.Bool(name + ".Flag.0")


def untagged(L, cell):
    return cell.discr != z3.BitVecVal(L.ex.enum_index(cell.ty, "WithTag"), 64)
