"""Value model of the MIR symbolic executor (mirsym).

Scalars are z3 terms; aggregates are Python structures; enums carry a *concrete* variant once a
path has looked at their discriminant (lazy case split = path fork); containers with unbounded
content (`Vec` used as a stack) are an opaque symbolic prefix plus an explicit list on top.
Lazily-created symbolic sub-values get deterministic names (origin + path) so that the same
sub-value is the same z3 constant in every fork and in the saved pre-state.
"""
import re
import z3


class Unsupported(Exception):
    pass


INT_TYPES = {"i8": (8, True), "i16": (16, True), "i32": (32, True), "i64": (64, True), "i128": (128, True),
             "isize": (64, True), "u8": (8, False), "u16": (16, False), "u32": (32, False), "u64": (64, False),
             "u128": (128, False), "usize": (64, False), "char": (32, False)}


class Int:
    __slots__ = ("t", "bits", "signed")

    def __init__(self, t, bits, signed):
        self.t, self.bits, self.signed = t, bits, signed

    def __repr__(self):
        return "Int(%s:%s%d)" % (z3.simplify(self.t), "i" if self.signed else "u", self.bits)


class Bool:
    __slots__ = ("t",)

    def __init__(self, t):
        self.t = t

    def __repr__(self):
        return "Bool(%s)" % z3.simplify(self.t)


class Float:
    __slots__ = ("t", "bits")

    def __init__(self, t, bits):
        self.t, self.bits = t, bits

    def __repr__(self):
        return "Float(%s)" % self.t


class Unit:
    def __repr__(self):
        return "()"


class Tuple:
    def __init__(self, items):
        self.items = items

    def __repr__(self):
        return "Tuple%r" % (self.items,)


class Struct:
    """Lazily materialised record. fields: idx -> value. origin: deterministic name or None."""

    def __init__(self, ty, fields=None, origin=None):
        self.ty, self.fields, self.origin = ty, (fields if fields is not None else {}), origin

    def __repr__(self):
        return "Struct<%s>%r" % (self.ty, self.fields)


class Enum:
    """variant None => not yet looked at (symbolic); discr is then a z3 BV64 constant."""

    def __init__(self, ty, variant=None, payload=None, origin=None, discr=None):
        self.ty, self.variant, self.payload, self.origin, self.discr = ty, variant, payload, origin, discr

    def __repr__(self):
        if self.variant is None:
            return "Enum<%s>?%s" % (self.ty, self.origin)
        return "%s::%s%r" % (self.ty, self.variant, self.payload.fields if self.payload else {})


class Box:
    """A memory cell (local variable, heap object, referent of a symbolic reference)."""
    _n = 0

    def __init__(self, val, name=None):
        self.val = val
        Box._n += 1
        self.name = name or ("box%d" % Box._n)

    def __repr__(self):
        return "Box(%s)" % self.name


class Ref:
    """Pointer to (box, path). Also models Box<T>/Rc<T> (heap pointer)."""

    def __init__(self, box, path=(), mut=False):
        self.box, self.path, self.mut = box, tuple(path), mut

    def __repr__(self):
        return "Ref(%s%s)" % (self.box.name, "".join("." + str(p[1]) for p in self.path))


class Vec:
    """prefix: None (concrete list) or (origin, len_term BV64): an untouched symbolic bottom part.
    items: explicit elements above the prefix (index 0 = lowest)."""

    def __init__(self, elem_ty, prefix=None, items=None, low=0):
        # prefix = (origin, len_term, taken): `taken` elements were already moved from the symbolic
        # bottom part into `items`. low = logical index of items[0] (element references use logical
        # indices so that materialising below does not invalidate them).
        if prefix is not None and len(prefix) == 2:
            prefix = (prefix[0], prefix[1], 0)
        self.elem_ty, self.prefix, self.items, self.low = elem_ty, prefix, (items if items is not None else []), low
        # random-access region inside the symbolic prefix (the variable heap): key -> [index term, value].
        # A key is the printed simplified index term; distinct keys must be provably distinct indices.
        self.slots = None

    def materialize(self, tc, k):
        """Make the top k elements of the symbolic prefix explicit (deterministic names)."""
        for _ in range(k):
            origin, ln, taken = self.prefix
            self.items.insert(0, mk_sym(tc, self.elem_ty, "%s[top-%d]" % (origin, taken)))
            self.prefix = (origin, z3.simplify(ln - 1), taken + 1)
            self.low -= 1

    def len_term(self):
        n = z3.BitVecVal(len(self.items), 64)
        if self.prefix is None:
            return n
        return z3.simplify(self.prefix[1] + n)

    def __repr__(self):
        return "Vec<%s>[%s | %r]" % (self.elem_ty, self.prefix[0] if self.prefix else "", self.items)


class Opaque:
    """Value of an uninterpreted sort (strings, persistent collections, host objects)."""

    def __init__(self, ty, term):
        self.ty, self.term = ty, term

    def __repr__(self):
        return "Opaque<%s>(%s)" % (self.ty, self.term)


class FnVal:
    """function item / fn pointer / closure (env: captured values by index)"""

    def __init__(self, name, env=None):
        self.name, self.env = name, env

    def __repr__(self):
        return "Fn(%s%s)" % (self.name, " +env" if self.env else "")


class PMap:
    """Persistent map (rpds RedBlackTreeMap): an opaque base (None = empty) plus the entries written
    on top of it, newest last. Lookups of a key that provably equals / differs from the written keys
    are exact; anything else is over-approximated by the summary."""

    def __init__(self, ty, base, entries=None):
        self.ty, self.base, self.entries = ty, base, (entries if entries is not None else [])

    def __repr__(self):
        return "PMap(%s + %d entries)" % ("empty" if self.base is None else self.base, len(self.entries))


class SliceView:
    """&v[start..end] of a Vec held elsewhere (positions are item positions above the symbolic prefix).
    whole=True: the view is the entire vector including its symbolic prefix."""

    def __init__(self, base, start, end, whole=False):
        self.base, self.start, self.end, self.whole = base, start, end, whole
        self.whole_ok = whole

    def __repr__(self):
        return "Slice(%r[%s..%s])" % (self.base, self.start, self.end)


class Atom:
    """immutable model value (updated functionally): copies share it"""
    pass


class Uninit:
    def __repr__(self):
        return "<uninit>"


# --------------------------------------------------------------------------- types

OPAQUE_PREFIXES = ("arcstr::", "ArcStr", "Substr", "rpds::", "RedBlackTreeMap<", "std::string::String",
                   "String", "str", "std::rc::Rc<std::cell::RefCell<dyn", "Rc<RefCell<dyn", "std::fmt::", "Arguments<",
                   "core::fmt::", "std::path::", "std::fs::", "std::io::", "dyn ", "std::any::TypeId", "TypeId",
                   "lex::Lex", "Lex", "[u8]", "std::borrow::Cow<", "Cow<", "std::str::", "Chars<", "CharIndices<",
                   "std::iter::", "std::slice::", "std::char::", "memchr::")

_sorts = {}


def opaque_sort(ty):
    key = re.sub(r"[^A-Za-z0-9_]", "_", ty)[:60]
    if key not in _sorts:
        _sorts[key] = z3.DeclareSort("S_" + key)
    return _sorts[key]


def strip_ty(ty):
    ty = ty.strip()
    ty = re.sub(r"'[a-z_][a-z0-9_]*\s*", "", ty)     # lifetimes
    return ty.strip()


def strip_generics(name):
    """drop every turbofish  ::<...>  from a path (bracket-matched)"""
    n = name.strip()
    out = []
    i = 0
    while i < len(n):
        if n.startswith("::<", i):
            depth = 0
            j = i + 2
            while j < len(n):
                if n[j] == "<":
                    depth += 1
                elif n[j] == ">" and n[j - 1] not in "-=":
                    depth -= 1
                    if depth == 0:
                        break
                j += 1
            i = j + 1
            continue
        out.append(n[i])
        i += 1
    return "".join(out)


def split_generic(ty):
    """'Option<cell::Cell>' -> ('Option', ['cell::Cell'])"""
    from e2.mirparse import split_top, find_matching
    i = ty.find("<")
    if i < 0 or not ty.endswith(">"):
        return ty, []
    try:
        if find_matching(ty, i) != len(ty) - 1:
            return ty, []
    except ValueError:
        return ty, []
    return ty[:i].rstrip(":"), split_top(ty[i + 1:-1])


def base_name(path):
    """'std::option::Option' -> 'Option'; 'cell::Cell' -> 'Cell'"""
    return path.split("::")[-1]


class TypeCtx:
    def __init__(self, defs):
        self.defs = defs
        # representation invariants assumed for symbolic values of crate types: type -> fn(origin) -> [z3 cond]
        self.invariants = {}
        self.assumptions = []        # global facts about symbolic inputs (collected as values are created)
        self.assumed = set()

    def note_new(self, bn, origin):
        f = self.invariants.get(bn)
        if f is not None and origin not in self.assumed:
            self.assumed.add(origin)
            self.assumptions.extend(f(origin))

    def kind(self, ty):
        """-> (kind, info) with kind in int/bool/float/unit/ref/tuple/vec/enum/struct/opaque/fn/never"""
        ty = strip_ty(ty)
        if ty in INT_TYPES:
            return "int", INT_TYPES[ty]
        if ty == "bool":
            return "bool", None
        if ty in ("f64", "f32"):
            return "float", 64 if ty == "f64" else 32
        if ty == "()":
            return "unit", None
        if ty == "!":
            return "never", None
        if ty.startswith("&mut "):
            return "ref", (ty[5:], True)
        if ty.startswith("&"):
            return "ref", (ty[1:].strip(), False)
        if ty.startswith("*const ") or ty.startswith("*mut "):
            return "ref", (ty.split(" ", 1)[1], True)
        if ty.startswith("(") and ty.endswith(")"):
            from e2.mirparse import split_top
            return "tuple", [x for x in split_top(ty[1:-1]) if x]
        if ty.startswith("fn(") or ty.startswith("for<") or ty.startswith("{closure@") or ty.startswith("fn "):
            return "fn", None
        if ty.startswith("[") and ty.endswith("]"):
            return "opaque", ty
        head, args = split_generic(ty)
        bn = base_name(head)
        if bn == "Vec" and args:
            return "vec", args[0]
        if bn == "Vector" and args and ("rpds" in head or head == "Vector"):
            return "vec", args[0]          # persistent vector: same model, operations copy
        if bn in ("Rc", "Box", "Arc") and args and not args[0].startswith("std::cell::RefCell<dyn") and not args[0].startswith("RefCell<dyn"):
            return "ref", (args[0], False)
        for p in OPAQUE_PREFIXES:
            if ty.startswith(p) or head.startswith(p) or bn == p.rstrip("<:"):
                return "opaque", ty
        if bn in self.defs.enums:
            return "enum", (bn, args)
        if bn in self.defs.structs:
            return "struct", (bn, args)
        return "opaque", ty

    def variant_field_type(self, ty, variant, idx):
        """declared type of field idx of a variant, with Option/Result generics substituted"""
        head, args = split_generic(strip_ty(ty))
        bn = base_name(head)
        fs = self.defs.variant_fields(bn, variant)
        fty = fs[idx][1]
        if bn == "Option":
            return args[0] if args else "?"
        if bn == "Result":
            return args[0] if variant == "Ok" else args[1]
        if bn == "ControlFlow":
            return args[1] if variant == "Continue" and len(args) > 1 else args[0]
        return fty


def mk_sym(tc, ty, name):
    """Fresh symbolic value of a MIR type, deterministic in `name`."""
    k, info = tc.kind(ty)
    if k == "int":
        return Int(z3.BitVec(name, info[0]), info[0], info[1])
    if k == "bool":
        return Bool(z3.Bool(name))
    if k == "float":
        return Float(z3.FP(name, z3.Float64() if info == 64 else z3.Float32()), info)
    if k in ("unit", "never"):
        return Unit()
    if k == "ref":
        return Ref(Box(mk_sym(tc, info[0], name + ".*"), name=name + ".*"), (), info[1])
    if k == "tuple":
        return Tuple([mk_sym(tc, t, "%s.%d" % (name, i)) for i, t in enumerate(info)])
    if k == "vec":
        v = Vec(info, prefix=(name, z3.BitVec(name + ".len", 64), 0), items=[])
        if "Vector" in split_generic(strip_ty(ty))[0]:
            v.slots = {}          # persistent vectors are read by index
        return v
    if k == "enum":
        return Enum(strip_ty(ty), None, None, origin=name, discr=z3.BitVec(name + ".discr", 64))
    if k == "struct":
        tc.note_new(info[0], name)
        return Struct(strip_ty(ty), {}, origin=name)
    if k == "fn":
        return FnVal("?sym:" + name)
    if "RedBlackTreeMap" in split_generic(strip_ty(ty))[0]:
        return PMap(strip_ty(ty), z3.Const(name, opaque_sort("rpds::RedBlackTreeMap")), [])
    return Opaque(strip_ty(ty), z3.Const(name, opaque_sort(strip_ty(ty))))


def clone_val(v):
    """Copy of a value for `copy`/`move`: containers duplicated, pointers keep their target."""
    if isinstance(v, FnVal):
        return FnVal(v.name, clone_val(v.env) if v.env is not None else None)
    if isinstance(v, PMap):
        return PMap(v.ty, v.base, [(clone_val(k), clone_val(x)) for k, x in v.entries])
    if isinstance(v, (Int, Bool, Float, Unit, Opaque, Uninit, SliceView, Atom)):
        return v
    if isinstance(v, Ref):
        return Ref(v.box, v.path, v.mut)
    if isinstance(v, Tuple):
        return Tuple([clone_val(x) for x in v.items])
    if isinstance(v, Struct):
        return Struct(v.ty, {k: (x if isinstance(x, int) else clone_val(x)) for k, x in v.fields.items()}, v.origin)
    if isinstance(v, Enum):
        return Enum(v.ty, v.variant, clone_val(v.payload) if v.payload is not None else None, v.origin, v.discr)
    if isinstance(v, Vec):
        nv = Vec(v.elem_ty, v.prefix, [clone_val(x) for x in v.items], v.low)
        if v.slots is not None:
            nv.slots = {k: [t, clone_val(x)] for k, (t, x) in v.slots.items()}
        return nv
    raise Unsupported("clone of %r" % (v,))
