//! Scenario runner: drives the real interpreter through a line-based script and prints what it
//! observes. Every API call is made under catch_unwind, so a panic is an observation, not a crash.
//!
//!   push int <i128> | real_bits <hex u64> | str <text> | nil | flag <bool> | vec | map | bitstr <hex> <start> <end>
//!        | tagged <inner kind ...>         (wraps the value in an empty tag map)
//!        | fun | any | vecof <n> (collect the top n pushed cells into a vector)
//!   input <hex>            set binary input
//!   recording on|off
//!   limit stack|heap|insn <n>|none
//!   eval <source>          Xstate::eval
//!   compile <source>       Xstate::compile
//!   run | next <n> | rnext <n>
//!   clone                  snapshot := xs.clone()   (state B); `swap` exchanges A and B
//!   dump                   print State::verif_dump()
//!   stack                  print depth and every visible cell (Debug), top first
//!   var <name>             print a variable's value
//!   error                  print pretty_error()
use std::panic::{catch_unwind, AssertUnwindSafe};
use xeh::prelude::*;

fn hex_bytes(h: &str) -> Vec<u8> {
    (0..h.len() / 2).map(|i| u8::from_str_radix(&h[2 * i..2 * i + 2], 16).unwrap()).collect()
}

fn parse_cell(words: &[&str], rest: &str) -> Cell {
    match words[0] {
        "int" => Cell::Int(words[1].parse::<i128>().unwrap()),
        "real_bits" => Cell::Real(f64::from_bits(u64::from_str_radix(words[1].trim_start_matches("0x"), 16).unwrap())),
        "str" => Cell::from(rest.splitn(2, ' ').nth(1).unwrap_or("")),
        "nil" => Cell::Nil,
        "flag" => Cell::Flag(words[1] == "true"),
        "vec" => Cell::Vector(Xvec::new()),
        "map" => Cell::Map(Xmap::new()),
        "fun" => Cell::Fun(Xfn::Interp(0)),
        "any" => Cell::from_any(0u8),
        "bitstr" => {
            let b = xeh::bitstr::Bitstr::from(hex_bytes(words[1]));
            let s: usize = words.get(2).map(|x| x.parse().unwrap()).unwrap_or(0);
            let e: usize = words.get(3).map(|x| x.parse().unwrap()).unwrap_or(b.len());
            Cell::Bitstr(b.substr(s, e).unwrap())
        }
        "tagged" => {
            let inner_rest = rest.splitn(2, ' ').nth(1).unwrap_or("");
            let iw: Vec<&str> = inner_rest.split(' ').collect();
            parse_cell(&iw, inner_rest).with_tags(Xmap::new())
        }
        other => panic!("unknown cell kind {}", other),
    }
}

fn show(r: Result<Xresult, Box<dyn std::any::Any + Send>>) {
    match r {
        Ok(Ok(())) => println!("RESULT ok"),
        Ok(Err(e)) => {
            let d = format!("{:?}", e);
            let name: String = d.chars().take_while(|c| c.is_alphanumeric()).collect();
            println!("RESULT err {} | {}", name, d.replace('\n', "\\n"));
        }
        Err(p) => {
            let msg = if let Some(s) = p.downcast_ref::<&str>() { s.to_string() } else if let Some(s) = p.downcast_ref::<String>() { s.clone() } else { "?".into() };
            println!("RESULT panic {}", msg.replace('\n', "\\n"));
        }
    }
}

fn main() {
    std::panic::set_hook(Box::new(|_| {}));
    let path = std::env::args().nth(1).expect("scenario file");
    let text = std::fs::read_to_string(path).unwrap();
    let mut xs = Xstate::boot().unwrap();
    xs.intercept_stdout(true);
    let mut other: Option<Xstate> = None;
    for line in text.lines() {
        let line = line.trim_end();
        if line.is_empty() || line.starts_with('#') {
            continue;
        }
        let (cmd, rest) = match line.find(' ') {
            Some(i) => (&line[..i], &line[i + 1..]),
            None => (line, ""),
        };
        let words: Vec<&str> = rest.split(' ').collect();
        match cmd {
            "push" => {
                if words[0] == "vecof" {
                    let n: usize = words[1].parse().unwrap();
                    let mut items = Vec::new();
                    for _ in 0..n {
                        items.push(xs.pop_data().unwrap());
                    }
                    items.reverse();
                    let mut v = Xvec::new();
                    for x in items {
                        v.push_back_mut(x);
                    }
                    xs.push_data(Cell::Vector(v)).unwrap();
                } else {
                    let c = parse_cell(&words, rest);
                    let r = catch_unwind(AssertUnwindSafe(|| xs.push_data(c)));
                    if !matches!(r, Ok(Ok(()))) {
                        show(r);
                    }
                }
            }
            "input" => {
                let b = xeh::bitstr::Bitstr::from(hex_bytes(words[0]));
                xs.set_binary_input(b).unwrap();
            }
            "recording" => xs.set_recording_enabled(words[0] == "on"),
            "intercept" => xs.intercept_output(words[0] == "on").unwrap(),
            "limit" => {
                let n = if words[1] == "none" { None } else { Some(words[1].parse::<usize>().unwrap()) };
                match words[0] {
                    "stack" => xs.set_stack_limit(n).unwrap(),
                    "heap" => xs.set_heap_limit(n).unwrap(),
                    _ => xs.set_insn_limit(n).unwrap(),
                }
            }
            "lex" => {
                // lex <ignored> <hex utf-8 text | ->: tokens of the real lexer, one per line
                let bytes = if words[1] == "-" { Vec::new() } else { hex_bytes(words[1]) };
                let text = String::from_utf8(bytes).unwrap();
                let r = catch_unwind(AssertUnwindSafe(|| {
                    let mut lx = xeh::lex::Lex::new(Xstr::from(text.as_str()));
                    let mut out = Vec::new();
                    for _ in 0..10000 {
                        let t = lx.next();
                        let ls = lx.last_substr();
                        let (a, b) = (ls.range().start, ls.range().end);
                        match t {
                            Ok(xeh::lex::Tok::EndOfInput) => { out.push(format!("TOK eof {} {}", a, b)); break; }
                            Ok(xeh::lex::Tok::Word(w)) => out.push(format!("TOK word {} {} {} {}", a, b, w.range().start, w.range().end)),
                            Ok(xeh::lex::Tok::Whitespace(w)) => out.push(format!("TOK ws {} {} {} {}", a, b, w.range().start, w.range().end)),
                            Ok(xeh::lex::Tok::Comment(w)) => out.push(format!("TOK comment {} {} {} {}", a, b, w.range().start, w.range().end)),
                            Ok(xeh::lex::Tok::Literal(Cell::Int(i))) => out.push(format!("TOK int {} {} {}", a, b, i)),
                            Ok(xeh::lex::Tok::Literal(Cell::Real(r))) => out.push(format!("TOK real {} {} {:016x}", a, b, r.to_bits())),
                            Ok(xeh::lex::Tok::Literal(Cell::Str(s))) => out.push(format!("TOK str {} {} {}", a, b, s.as_bytes().iter().map(|x| format!("{:02x}", x)).collect::<String>() + "-")),
                            Ok(xeh::lex::Tok::Literal(Cell::Bitstr(bs))) => out.push(format!("TOK bits {} {} {}", a, b, bs.bits().map(|x| if x != 0 { '1' } else { '0' }).collect::<String>() + "-")),
                            Ok(xeh::lex::Tok::Literal(other)) => out.push(format!("TOK other {} {} {:?}", a, b, other)),
                            Err(e) => { out.push(format!("TOK err {} {} {}", a, b, format!("{:?}", e).replace('\n', " "))); break; }
                        }
                    }
                    out
                }));
                match r {
                    Ok(lines) => { for l in lines { println!("{}", l); } println!("LEXDONE"); }
                    Err(_) => println!("RESULT panic in lexer"),
                }
            }
            "tokloc" => {
                // tokloc <byte start> <byte end> <hex utf-8 text>: the real token_location of text[start..end]
                let (a, b): (usize, usize) = (words[0].parse().unwrap(), words[1].parse().unwrap());
                let text = String::from_utf8(hex_bytes(words[2])).unwrap();
                let r = catch_unwind(AssertUnwindSafe(|| {
                    let src = Xstr::from(text.as_str());
                    let tok = src.substr(a..b);
                    let sources = vec![(Xstr::from("f"), src.clone())];
                    xeh::lex::token_location(&sources, &tok).map(|l| (l.line, l.col, l.whole_line.range().start, l.whole_line.range().end))
                }));
                match r {
                    Ok(Some((line, col, ws, we))) => println!("TOKLOC {} {} {} {}", line, col, ws, we),
                    Ok(None) => println!("TOKLOC none"),
                    Err(_) => println!("RESULT panic in token_location"),
                }
            }
            "eval" => show(catch_unwind(AssertUnwindSafe(|| xs.eval(rest)))),
            "compile" => show(catch_unwind(AssertUnwindSafe(|| xs.compile(rest)))),
            "run" => show(catch_unwind(AssertUnwindSafe(|| xs.run()))),
            "next" => {
                let n: usize = words[0].parse().unwrap_or(1);
                for _ in 0..n {
                    let r = catch_unwind(AssertUnwindSafe(|| xs.next()));
                    if !matches!(r, Ok(Ok(()))) {
                        show(r);
                        break;
                    }
                }
            }
            "rnext" => {
                let n: usize = words[0].parse().unwrap_or(1);
                for _ in 0..n {
                    let r = catch_unwind(AssertUnwindSafe(|| xs.rnext()));
                    if !matches!(r, Ok(Ok(()))) {
                        show(r);
                        break;
                    }
                }
            }
            "clone" => other = Some(xs.clone()),
            "swap" => {
                if let Some(o) = other.take() {
                    other = Some(std::mem::replace(&mut xs, o));
                }
            }
            "dump" => {
                println!("DUMP-BEGIN");
                print!("{}", xs.verif_dump());
                println!("DUMP-END");
            }
            "stack" => {
                println!("DEPTH {}", xs.data_depth());
                for i in 0..xs.data_depth() {
                    let c = xs.get_data(i).unwrap();
                    match c {
                        Cell::Real(r) => println!("CELL {} real 0x{:016x} {:?}", i, r.to_bits(), c),
                        _ => println!("CELL {} {} {:?}", i, c.type_name(), c),
                    }
                }
            }
            "var" => match xs.get_var_value(words[0]) {
                Ok(v) => println!("VAR {} {:?}", words[0], v),
                Err(e) => println!("VAR {} <error {:?}>", words[0], e),
            },
            "error" => {
                let r = catch_unwind(AssertUnwindSafe(|| xs.pretty_error()));
                match r {
                    Ok(s) => println!("ERROR {}", s.unwrap_or_default().replace('\n', "\\n")),
                    Err(_) => println!("RESULT panic in pretty_error"),
                }
            }
            "stdout" => println!("STDOUT {:?}", xs.read_stdout().unwrap_or_default()),
            "ip" => println!("IP {}", xs.ip()),
            other => panic!("unknown command {}", other),
        }
    }
}
